#!/bin/bash
# usage: intake_seed.sh <dir with patch.diff, demo_test.go, notes.md> <seed id> [extra property ids to try when the own check is silent]
# confirm_seed.sh (scratch worktree) and then eval_seed_copy.sh for the seed's own property; one summary line.
src="$1"; id="$2"; shift 2
cd "$(dirname "$0")/.."
out=$(tools/confirm_seed.sh "$src" "$id" 2>&1)
echo "$out" | tail -2
echo "$out" | grep -q "ACCEPTED" || exit 1
tools/eval_seed_copy.sh seeded/$id quick "$(echo $id | cut -c1-3)" "$@"
