#!/usr/bin/env python3
"""Regenerates /verif/MANIFEST.json from the table below."""
import json, os

VERIF = os.path.dirname(os.path.dirname(os.path.abspath(__file__)))

TRUST = ("Trusted: the reference model, interpreter and independent decoder in /verif/harness, MemFile standing in for a file "
         "(os.File EOF semantics), rapid v1.3.0's generators and shrinker; the verif-tag hooks only add introspection and no-op yield points. "
         "A pass means 'held on every generated case of the stated shape', never absence of violations.")

P = {
 "C01": ("hist", "exploration", "stateful PBT vs reference sorted map (rapid)",
         "Generated operation histories (file-backed and memory-only, with Flush/evict/re-open interleaved) run against gkvlite and a reference map; every return value and, at drawn intervals, the complete contents are compared. Exploration is the right level for a for-all-histories API contract with an executable specification.", "3 C01"),
 "C02": ("hist", "exploration", "stateful PBT + probe re-open oracle (rapid)",
         "After every op a copy of the file image is opened in a fresh Store and compared with the model at the last successful Flush; 're-open' ops continue histories on the re-opened store.", "3 C02"),
 "C03": ("crash", "fault_enumeration", "exhaustive crash-point enumeration over generated histories",
         "For every generated history every (write, byte) cut point of its write log is rebuilt and re-opened; the recovered state must be the last flush whose root record is complete; continuations and a second crash on drawn cuts; every cut a second time with junk appended; a tail sweep re-opens complete files followed by junk tails of every length around the multiples of the power-of-two block sizes up to 64 KiB. Exhaustive within each history, sampled over histories.", "3 C03"),
 "C04": ("hist", "exploration", "stateful PBT with per-snapshot frozen models (rapid)",
         "Histories over the original and up to 4 snapshots (snapshots of snapshots, FlushRevert/Close on snapshots, rejected writes); every open snapshot is re-read against the model frozen at Snapshot() time, the original and the file are checked for non-interference.", "3 C04"),
 "C05": ("sched", "exploration", "schedule-generating PBT: harness-owned cooperative scheduler + version-interval oracle",
         "One mutator, one flusher and 1-3 readers run under a generated schedule that switches at every StoreFile call, visitor callback and verifYield hook point; results are validated post hoc against the complete version log (single-version reads, no lost update, flush name order). Two yield points per file call (before it starts, after it took effect). Schedules are per-yield random walks, picks in runs, or priority schedules with change points (PCT style). Deterministic and shrinkable; interleavings finer than yield points are out of reach.", "3 C05"),
 "C06": ("hist", "exploration", "PBT of range queries vs model ranges, 3-way depth cross-check",
         "Contents in every cache state and under three comparators; range queries through all six APIs compared with the model range, early stop honoured, depths checked against full-scan consistency, binary-tree validity and the hook walk.", "3 C06"),
 "C07": ("fault", "fault_enumeration", "single-fault enumeration over generated histories (every I/O call x torn lengths)",
         "Each generated history is re-executed once per StoreFile call with that call failing (writes also torn at 1 byte / half / all-but-one), with retry and abandon variants; error returned, state unchanged, durable state intact, later behaviour identical to the fault-free run plus churn. Exhaustive over single faults within each history.", "3 C07"),
 "C08": ("hist", "exploration", "stateful PBT vs flush-stack model + termination watchdog",
         "Mutate/Flush/re-open/FlushRevert histories against a stack of flushed models; contents, file length and probe re-open after every revert; a case that does not return within the watchdog bound is confirmed by replay in a fresh process.", "3 C08"),
 "C09": ("hist", "exploration", "PBT with StoreFile call-log invariant (+ the same invariant under single-fault enumeration)",
         "Every WriteAt/Truncate in the harness file's log is attributed to the API call (or harness read-back) in progress and checked against the append-only rules; the prefix below the durable end is compared byte for byte around every op; a fault phase repeats this under C07's single-fault enumeration (a failing Flush must not truncate or rewrite); tools/view is run over golden files. Covers the programs quantifier only dynamically.", "3 C09"),
 "C10": ("hist", "exploration", "stateful PBT, multi-store, free-list hook invariant",
         "Several stores share gkvlite's global free lists; snapshots released in any order, SetCollection/RemoveCollection/Close, nested ops inside visitors, iterators, churn; every open handle vs its model plus 'no node reachable from a live version is on the free list or zeroed' after every op.", "3 C10"),
 "C11": ("hist", "exploration", "PBT differential CopyTo vs source + independent decoder accounting",
         "Generated sources (writable/flushed+evicted/snapshot/re-opened) and flushEvery values; returned store, re-opened destination, decoder-based 'no superseded item' and byte accounting, source file log empty.", "3 C11"),
 "C12": ("hist", "exploration", "stateful PBT vs name->contents model",
         "SetCollection/RemoveCollection/mutation/Flush/re-open histories against a model of names and contents, after every op and after probe re-open; free-list invariant on.", "3 C12"),
 "C13": ("hist", "exploration", "stateful PBT of tree invariants + exhaustive small-scope enumeration",
         "After every op: order, binary-tree validity of reported depths, exact per-node aggregates (hook walk; uncached children from file bytes), heap order and canonical treap depth (while no lowering overwrite), the same on the persisted tree read by the independent decoder after every Flush, a share of cases with a length-changing ItemValLength/ItemValWrite/ItemValRead representation; plus every insertion order x priority ranking for n<=4 (quick) / n<=5 (thorough) with single deletes and raising overwrites.", "3 C13"),
 "C14": ("hist", "exploration", "PBT with independent decoder (literal layout constants) + golden files",
         "Every flushed image of generated histories is parsed by a decoder that shares no code with gkvlite: framing, JSON shape, record placement, persisted aggregates, decoded state == model, every byte accounted for; golden files written by the pinned build must be read back identically.", "3 C14"),
 "C15": ("hist", "exploration", "stateful PBT with counting callbacks",
         "ItemAlloc/AddRef/DecRef counting callbacks; no negative count, positive count on every handed-out, visitor-passed or reachable item, zero balance once everything is closed. One known finding (K1) is excluded by construction and replayed separately.", "3 C15"),
 "C16": ("hist", "exploration", "exhaustive size enumeration + PBT of contents",
         "Every n in 0..130 and around k*1024 up to 12290 in four cache states, plus spine-shaped (depth = n) collections of 21 sizes, through Len, 8 block-visit variants and VisitItemsRandom (exactly-once coverage), plus generated key sets through the history interpreter.", "3 C16"),
 "C17": ("hist", "exploration", "PBT over all 256 callback subsets + differential vs callback-free run",
         "Callback subsets enumerated round-robin over generated histories with the C01/C02/C06/C14/C19 oracles on; the callback-free reference run re-supplies comparators with SetCollection; the file written must be byte-identical to the one written without callbacks; a fault phase repeats C07's enumeration under drawn subsets (differential).", "3 C17"),
 "C18": ("hist", "exploration", "PBT of iterator scripts and re-entrant visitors",
         "Next/Close scripts over up to 3 interleaved iterators with same-goroutine mutations, and visitors calling back into the store; sequence, Next()==false after end, producer goroutine exit, version reference count, watchdog; a fault phase fails every file call of visit/iterator histories once.", "3 C18"),
 "C19": ("hist", "exploration", "PBT with read-log vs decoder value ranges (sequential histories + generated schedules)",
         "The StoreFile read log of key-only operations is intersected with value byte ranges computed by the independent decoder from every flush; reads during NewStore must stay inside the last root record and number <= 8 (also with the KeyCompareForCollection callback installed); a concurrent phase attributes reads to key-only reader ops under the cooperative scheduler; a fault phase repeats the read-log rule under single-fault enumeration (every file call of a history fails once).", "3 C19"),
}

ENGINES = [
 {"name": "hist", "path": "harness/world.go", "kind_free_text": "case-as-data interpreter: rapid-generated operation histories run against gkvlite and a reference model, profile per property (harness/props.go, harness/gen.go)"},
 {"name": "crash", "path": "harness/crash.go", "kind_free_text": "write-log recording + exhaustive (write, byte) crash image enumeration with continuation"},
 {"name": "fault", "path": "harness/fault.go", "kind_free_text": "single-fault enumeration: every StoreFile call of a history fails once (torn writes included)"},
 {"name": "sched", "path": "harness/sched.go", "kind_free_text": "cooperative scheduler with generated schedules; post-hoc version-interval validation"},
]

def main():
    checks = []
    for pid in sorted(P):
        eng, level, tech, text, ref = P[pid]
        checks.append({
            "property_id": pid,
            "quick_cmd": f"./check {pid} quick",
            "thorough_cmd": f"./check {pid} thorough",
            "evidence_file": f"evidence/{pid}.json",
            "replay_cmd_template": "./check --replay {path}",
            "engine": eng,
            "level_claimed": {"category": level, "text": text, "design_ref": "DESIGN.md section " + ref},
            "level_note": TRUST,
            "technique": tech,
        })
    for e in ENGINES:
        e["serves_properties"] = sorted(p for p in P if P[p][0] == e["name"])
    hooks = json.load(open(os.path.join(VERIF, "MANIFEST.hooks.json")))
    m = {
        "version": 1,
        "setup_cmd": "./check --setup",
        "hooks": hooks,
        "engines": ENGINES,
        "checks": checks,
        "not_applicable": [],
        "notes": "All checks are property-based tests, exhaustive small-scope enumerations or fault/crash-point enumerations over generated histories, driven by ./check (see DESIGN.md). Exit 2 + an INCONCLUSIVE line means build failure / time backstop / non-reproducible failure, never a violation.",
    }
    json.dump(m, open(os.path.join(VERIF, "MANIFEST.json"), "w"), indent=1)
    print("wrote MANIFEST.json with", len(checks), "checks")

if __name__ == "__main__":
    main()
