#!/bin/bash
# usage: regress_seeds.sh <copy-of-repo-dir> [seed ids...]
# Re-evaluates every seeded change against the first check listed in its
# meta.json (detected_by), using a COPY of the repository (VERIF_REPO
# development aid), so /repo itself is never touched.  Prints one line per seed.
set -u
repo="$(cd "$1" && pwd)"; shift
cd "$(dirname "$0")/.."
seeds=("$@")
if [ ${#seeds[@]} -eq 0 ]; then seeds=($(ls seeded | grep -E '^C[0-9]+-[0-9]+$')); fi
for s in "${seeds[@]}"; do
  d=seeded/$s
  chk=$(python3 -c "import json;m=json.load(open('$d/meta.json'));print(m['detected_by'][0]['check'].split()[1] if m['detected_by'] else '')")
  if [ -z "$chk" ]; then echo "REGRESS $s expected-undetected (outside the stated domain)"; continue; fi
  (cd "$repo" && git apply "$OLDPWD/$d/patch.diff") || { echo "REGRESS $s patch-does-not-apply"; continue; }
  out=$(VERIF_REPO="$repo" ./check "$chk" quick 2>&1); rc=$?
  (cd "$repo" && git apply -R "$OLDPWD/$d/patch.diff")
  sig=$(echo "$out" | grep -E "REPLAY-VIOLATION|^HANG" | head -1 | cut -c1-120)
  echo "REGRESS $s check=$chk exit=$rc $sig"
done
