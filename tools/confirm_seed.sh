#!/bin/bash
# usage: confirm_seed.sh <dir with patch.diff, demo_test.go, notes.md> <seed id, e.g. C07-1>
# Confirms, in a fresh scratch worktree of /repo (removed afterwards), that
#   (a) with the patch the existing suite passes (twice) and the demo fails,
#   (b) without the patch the demo passes,
# and, if so, stores the seed under /verif/seeded/<id>/ with a meta.json skeleton.
set -u
src="$(cd "$1" && pwd)"; id="$2"
export GOFLAGS=-mod=mod GOPROXY=off GOSUMDB=off GOTOOLCHAIN=local
wt=/tmp/confirm-$id
git -C /repo worktree remove --force "$wt" >/dev/null 2>&1
git -C /repo worktree add -q --detach "$wt" HEAD || exit 2
cleanup() { git -C /repo worktree remove --force "$wt" >/dev/null 2>&1; rm -rf "$wt"; }
trap cleanup EXIT
cd "$wt" || exit 2
demo=$(grep -o 'func TestSeedDemo[A-Za-z0-9_]*' "$src/demo_test.go" | head -1 | sed 's/func //')
[ -n "$demo" ] || { echo "CONFIRM $id: no TestSeedDemo function"; exit 1; }
git apply "$src/patch.diff" || { echo "CONFIRM $id: patch does not apply"; exit 1; }
files=$(git diff --name-only | tr '\n' ' ')
s1=$(go test -vet=off -count=1 -timeout 10m ./... 2>&1 | grep -c "^ok")
s2=$(go test -vet=off -count=1 -timeout 10m ./... 2>&1 | grep -c "^ok")
fails=$(go test -vet=off -count=1 -timeout 10m ./... 2>&1 | grep -c "^FAIL\|^---")
cp "$src/demo_test.go" ./zz_seed_demo_test.go
with=$(go test -vet=off -count=1 -timeout 5m -run "^TestSeedDemo" . 2>&1 | tail -1)
git checkout -- . 2>/dev/null
without=$(go test -vet=off -count=1 -timeout 5m -run "^TestSeedDemo" . 2>&1 | tail -1)
rm -f zz_seed_demo_test.go
echo "CONFIRM $id: files=[$files] suite_ok_pkgs=$s1,$s2 suite_fail_lines=$fails demo_with_patch=[$with] demo_without=[$without]"
case "$with" in FAIL*) ;; *) echo "CONFIRM $id: REJECTED (demo does not fail with the patch)"; exit 1;; esac
case "$without" in ok*) ;; *) echo "CONFIRM $id: REJECTED (demo does not pass without the patch)"; exit 1;; esac
[ "$s1" = "2" ] && [ "$s2" = "2" ] && [ "$fails" = "0" ] || { echo "CONFIRM $id: REJECTED (existing suite does not pass with the patch)"; exit 1; }
dst=/verif/seeded/$id
mkdir -p "$dst"
cp "$src/patch.diff" "$src/demo_test.go" "$dst/"
[ -f "$src/notes.md" ] && cp "$src/notes.md" "$dst/notes.md"
cat > "$dst/confirm.txt" <<EOF
confirmed $(date -u +%Y-%m-%dT%H:%M:%SZ) in a scratch worktree of /repo at $(git -C /repo rev-parse --short HEAD):
  git apply patch.diff ; go test -vet=off -count=1 ./...  (twice)  -> $s1 and $s2 packages ok, $fails failing lines
  + demo_test.go: go test -run ^TestSeedDemo .  -> $with
  git checkout -- . ; same demo                  -> $without
EOF
echo "CONFIRM $id: ACCEPTED -> $dst"
