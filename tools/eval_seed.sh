#!/bin/bash
# usage: eval_seed.sh <seed-dir> [tier] [property ids...]
# Applies <seed-dir>/patch.diff to /repo, runs the listed checks (default: the
# property named in meta.json / directory name), prints one line per check and
# always restores /repo.  Replay files and evidence written during the run are
# discarded (evidence is restored from git).
set -u
dir="$(cd "$1" && pwd)"; shift
tier="${1:-quick}"; [ $# -gt 0 ] && shift
props=("$@")
if [ ${#props[@]} -eq 0 ]; then
  props=("$(basename "$dir" | cut -c1-3)")
fi
cd /repo || exit 2
if ! git diff --quiet; then echo "eval_seed: /repo has uncommitted changes" >&2; exit 2; fi
git apply "$dir/patch.diff" || { echo "eval_seed: patch does not apply" >&2; exit 2; }
restore() {
  git -C /repo checkout -- . ; git -C /repo clean -fdq
  git -C /verif checkout -- evidence 2>/dev/null
}
trap restore EXIT
cd /verif
for p in "${props[@]}"; do
  out=$(./check "$p" "$tier" 2>&1)
  rc=$?
  line=$(echo "$out" | grep -E "^VIOLATION|^INCONCLUSIVE" | head -1)
  sig=$(echo "$out" | grep -E "REPLAY-VIOLATION|HANG" | head -1)
  echo "SEED $(basename "$dir") check=$p tier=$tier exit=$rc ${line} ${sig}"
  echo "$out" | grep -E "^\[C[0-9]+\]" | head -2 | cut -c1-400
done
rm -f /verif/replays/*.json
