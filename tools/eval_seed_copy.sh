#!/bin/bash
# usage: eval_seed_copy.sh <seed-dir> [tier] [property ids...]
# Like eval_seed.sh, but never touches /repo: the patch is applied to a scratch
# worktree of /repo (removed afterwards) and the checks are built against that
# copy through the VERIF_REPO development aid.  Several of these can run side by
# side.  Evidence written by the run is not kept (callers restore it from git).
set -u
dir="$(cd "$1" && pwd)"; shift
tier="${1:-quick}"; [ $# -gt 0 ] && shift
props=("$@")
id=$(basename "$dir")
if [ ${#props[@]} -eq 0 ]; then props=("$(echo "$id" | cut -c1-3)"); fi
wt=/tmp/evalrepo-$id-$$
git -C /repo worktree add -q --detach "$wt" HEAD || exit 2
cleanup() { git -C /repo worktree remove --force "$wt" >/dev/null 2>&1; rm -rf "$wt"; }
trap cleanup EXIT
(cd "$wt" && git apply "$dir/patch.diff") || { echo "SEED $id patch-does-not-apply"; exit 2; }
cd "$(dirname "$0")/.."
for p in "${props[@]}"; do
  out=$(VERIF_REPO="$wt" ./check "$p" "$tier" 2>&1); rc=$?
  line=$(echo "$out" | grep -E "^VIOLATION|^INCONCLUSIVE|^UNCONFIRMED" | head -1)
  sig=$(echo "$out" | grep -E "REPLAY-VIOLATION|^HANG" | head -1 | cut -c1-200)
  echo "SEED $id check=$p tier=$tier exit=$rc ${line} ${sig}"
  echo "$out" | grep -E "^\[C[0-9]+\]" | head -2 | cut -c1-400
done
