#!/bin/bash
# usage: with_patch.sh <patch.diff> -- <command...>
# Applies a patch to /repo, runs the command, and always restores /repo.
set -u
patch="$1"; shift; shift
cd /repo || exit 2
if ! git diff --quiet; then echo "with_patch: /repo has uncommitted changes" >&2; exit 2; fi
git apply "$patch" || { echo "with_patch: patch does not apply" >&2; exit 2; }
trap 'git -C /repo checkout -- . ; git -C /repo clean -fdq' EXIT
cd /verif && "$@"
