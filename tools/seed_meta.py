#!/usr/bin/env python3
"""Writes /verif/seeded/<id>/meta.json from the table below and regenerates
/verif/seeded/README.md.  The table is maintained by hand from the sub-agents'
reports (confirmed by tools/confirm_seed.sh) and from tools/eval_seed.sh runs."""
import json, os

ROOT = os.path.join(os.path.dirname(os.path.dirname(os.path.abspath(__file__))), "seeded")

# id: (property, what the change is, what it needs in order to manifest, {check: signature of the violation reported})
SEEDS = {
 "C01-1": ("C01", "treap.go union(): when an overwrite keeps the old node's position (existing priority > new priority) the node's byte total is computed from the replaced item",
           "overwrite of an existing key with a strictly lower priority and a value of different length, then GetTotals",
           {"C01": "contents (GetTotals bytes)", "C13": "contents"}),
 "C01-2": ("C01", "treap.go join(): the new root's byte total adds the other subtree root's item size (copy/paste slip between the symmetric branches)",
           "Delete of a present key whose node has two children, left root priority > right root priority, items of different sizes, then GetTotals",
           {"C01": "contents (GetTotals bytes)", "C13": "contents"}),
 "C02-1": ("C02", "store.go Flush(): skips the root record when no collection root looks dirty ('idle flush' fast path)",
           "RemoveCollection (or a Delete of a root item with one persisted child) followed by Flush and re-open",
           {"C02": "flush-no-root"}),
 "C02-2": ("C02", "store.go: the end-of-root-record bookkeeping is no longer initialised on the open path (moved into FlushRevert)",
           "two flushes, re-open, then FlushRevert on the re-opened store before any Flush of its own: store becomes empty, file truncated to 0",
           {"C02": "revert-file-length (after FlushRevert was added to the C02 profile; missed before)", "C08": "revert-file-length"}),
 "C03-1": ("C03", "store.go writeRoots(): when nothing was appended since the last root record the new root record overwrites the previous one in place",
           "a Flush that writes only a root record whose content differs (RemoveCollection, delete of a root whose subtree is persisted) and a crash inside that write",
           {"C03": "recording:flush-no-root / mixed or lost flush on torn images"}),
 "C03-2": ("C03", "store.go readRootsScan(): after a rejected end-marker candidate the backward scan steps back a whole minimal record length instead of one byte",
           "a doubled end marker inside uncommitted data (value starting with the marker, key <= 15 bytes) 1..43 bytes after the last good root record, crash anywhere after it",
           {"C03": "recrash:unexpected-error:NewStore and junk:unexpected-error:NewStore"}),
 "C05-1": ("C05", "store.go Flush(): the per-collection write loop calls the public Collection.Write() (which pins whatever version is current) instead of writing the version Flush pinned",
           "a collection mutated after Flush pinned it and before Flush wrote it, the pinned version being unflushed; file re-opened afterwards",
           {"C05": "flush-not-a-version"}),
 "C05-2": ("C05", "item.go itemLoc.read(): on a lost casItem race returns whatever item is cached instead of retrying (it may have been loaded keys-only)",
           "reader blocked in the value read of an evicted item while a visit evicts it and another descent re-loads it keys-only",
           {"C05": "inconsistent-read"}),
 "C06-1": ("C06", "treap.go visitNodes(): skips the value fetch when the item was already cached (possibly keys-only)",
           "file-backed store with items out of memory, a key-only access (Exist/GetItem(false)/Min/Max(false)) caching them without values, then a withValue visit over them",
           {"C06": "contents / visit-value"}),
 "C06-2": ("C06", "treap.go visitNodes(): depth not advanced when stepping past an out-of-range node",
           "an Ex visit whose target excludes at least one ancestor of a delivered item",
           {"C06": "depth-mismatch"}),
 "C07-1": ("C07", "item.go itemLoc.write(): size and item location are recorded before the value write, whose error is returned last",
           "fault exactly on a value WriteAt of a dirty item, retried Flush, then a read that goes to the file",
           {"C07": "contents (after retried flush)"}),
 "C07-2": ("C07", "treap.go walk(): a failed child-node read is folded into the 'no child' case; the inner item read's error variable shadows it",
           "freshly re-opened store, min/max not at the root, the single failing ReadAt being a non-root node read of MinItem/MaxItem/CopyTo",
           {"C07": "error-swallowed:MaxItem / VisitItemsAscendBlockEx"}),
 "C08-1": ("C08", "store.go: root-record-end bookkeeping moved into FlushRevert, lost on re-open",
           "file with >= 2 flushes, re-open, FlushRevert before any Flush on that store instance",
           {"C08": "revert-file-length"}),
 "C08-2": ("C08", "store.go writeRoots(): skips the root record when the roots JSON equals the last one written; FlushRevert never clears that cache",
           "an idle second Flush followed by FlushRevert, or a same-shape same-size redo after a revert",
           {"C08": "flush-no-root"}),
 "C04-1": ("C04", "collection.go rootCAS(): a previous version that is still pinned (chained) no longer gets its 'superseded' flag",
           "snapshot; Set of a new key that reuses the old root node unmarked (priority >= root's, beyond the root on a childless side); close the snapshot as last holder; touch the original",
           {"C04": "durable / contents (original loses items after snapshot Close)"}),
 "C04-2": ("C04", "store.go Snapshot(): a snapshot of a snapshot takes no root pin of its own",
           "s.Snapshot().Snapshot(), close the parent snapshot, mutate the original twice (or close both)",
           {"C04": "panic (nil dereference while reading through the child snapshot)"}),
 "C09-1": ("C09", "store.go readRoots(): opening a store truncates bytes found after the newest valid root record",
           "a file with bytes after its newest root record (interrupted Flush or Collection.Write without Flush) that is re-opened",
           {"C09": "truncate-outside-revert (after Collection.Write was added to the C09 profile)"}),
 "C09-2": ("C09", "collection.go Write(): the read-only guard is removed, so a snapshot's collection can write at its stale append position",
           "snapshot taken with an unflushed mutation, the writer mutates the same collection again and flushes, then Write() on the snapshot's collection",
           {"C09": "write-on-read-path (after rejected snapshot ops were added to the C09 profile; missed before)", "C04": "snapshot-accepted-write"}),
 "C10-1": ("C10", "collection.go rootCAS(): no version chain when the successor tree is empty",
           "a version pinned by a snapshot / in-flight visit, the collection emptied by Delete meanwhile, one more Set, then a read through the old handle after allocation elsewhere",
           {"C10": "live-node-freed"}),
 "C10-2": ("C10", "collection.go VisitItemsDescendEx(): the version pin is released before the walk instead of after it",
           "a descending visit or IterateDescend in flight plus a Set/Delete on the same collection during it",
           {"C10": "panic (nil dereference in visitNodes)"}),
 "C11-1": ("C11", "store.go CopyTo(): skips the closing Flush when the last copied item already triggered a periodic flush",
           "flushEvery > 0, an empty collection sorting after every non-empty one, last non-empty collection's size a multiple of flushEvery; checker must re-open the destination file",
           {"C11": "copyto-durable"}),
 "C11-2": ("C11", "store.go ItemValRead(): leaves Val nil for zero-length values",
           "an item with an empty non-nil value that is not cached with its value at CopyTo time (re-opened file, snapshot of one, evicted)",
           {"C11": "copyto-contents"}),
 "C12-1": ("C12", "store.go Flush(): skips the root record when every collection root is already persisted",
           "RemoveCollection of a persisted collection with only clean non-empty survivors (or none), Flush, re-open",
           {"C12": "flush-no-root"}),
 "C12-2": ("C12", "store.go SetCollection(existing, nil): keeps the old comparator instead of installing bytes.Compare",
           "collection with a custom comparator, SetCollection(sameName, nil), then an operation on which the comparators disagree",
           {"C12": "contents (scan order) — after nil comparators were added to the generator; missed before"}),
 "C13-1": ("C13", "treap.go union(): stale byte total on a lower-priority overwrite (same defect class as C01-1)",
           "overwrite with strictly lower priority and a value of different length",
           {"C13": "contents (GetTotals) / agg-bytes"}),
 "C13-2": ("C13", "treap.go join(): shortcut that ignores priorities when the left part has no right subtree",
           "Delete where both join parts are non-empty, the left root has no right child and the right root outranks it; lookups stay correct, only heap order / depths are wrong",
           {"C13": "heap-order"}),
 "C14-1": ("C14", "store.go Flush(): returns nil without writing a root record when all roots look clean",
           "RemoveCollection or Delete of a root item with one persisted child after an earlier flush",
           {"C14": "flush-no-root"}),
 "C14-2": ("C14", "store.go CopyTo(): skips its final flush when no item is pending",
           "flushEvery > 0 and a trailing empty collection (or only empty collections)",
           {"C14": "copyto-no-final-root / copyto-durable (after CopyTo was added to the C14 profile; missed before)", "C11": "copyto-durable"}),
 "C15-1": ("C15", "treap.go visitNodes(): releases the captured key-only item instead of the item actually evicted after a with-value visit",
           "file-backed, flushed, item uncached or key-only, then a withValue visit over it",
           {"C15": "refcount-negative"}),
 "C15-2": ("C15", "collection.go rootDecRefUnlocked(): skips the chained release when the main collection is already closed",
           "Snapshot, a mutation while pinned, store.Close() before snapshot.Close()",
           {"C15": "refcount-leak"}),
 "C16-1": ("C16", "collection.go VisitItemsAscendBlockEx(): the per-block counter is shared across blocks",
           "size not a multiple of the block length and a block order that does not leave the short block last (reverse / shuffle mangler)",
           {"C16": "block-coverage (n=3, reverse mangler)"}),
 "C16-2": ("C16", "collection.go Len(): result cached on a pooled rootNodeLoc and never reset on reuse",
           "Len(); two mutations; Len() again (recycled version handle)",
           {"C16": "len"}),
 "C17-1": ("C17", "collection.go SetItem(): accepts a nil Val once an ItemValLength callback is installed",
           "an ItemValLength callback (even the neutral len(Val)) plus SetItem(k, nil)",
           {"C17": "invalid-accepted, only with the callback subset (after invalid SetItems were added to the C17 profile; missed before)"}),
 "C17-2": ("C17", "item.go itemLoc.read(): with an AfterItemRead hook installed the value-read error is overwritten by the hook's nil error",
           "AfterItemRead installed, value not cached, the file failing exactly the value read",
           {"C17": "error-swallowed (fault phase TestC17Fault, differential against the callback-free execution; missed before that phase existed)"}),
 "C18-1": ("C18", "collection.go iterate(): the early exit on a Close() before the first Next() is lost, the producer starts the walk and blocks forever",
           "Close() as the first call on an iterator with at least one item in range",
           {"C18": "goroutine-leak"}),
 "C18-2": ("C18", "collection.go VisitItemsAscendEx(): the version pin is released explicitly after the walk instead of by defer; the read-error path returns before it",
           "file-backed store with an uncached tree and a ReadAt failure during an ascending walk / IterateAscend",
           {"C18": "version-still-pinned (fault phase TestC18Fault + quiescent-reference invariant; missed before)"}),
 "C19-1": ("C19", "collection.go Set(): reads the old value to skip no-op rewrites",
           "Set over an existing key whose persisted value is not in memory (re-opened store, evicted item)",
           {"C19": "value-read-by-key-only-op"}),
 "C19-2": ("C19", "item.go itemLoc.read(): item records of at most 64 bytes are fetched whole on a key-only load",
           "a persisted, uncached item whose record is <= 64 bytes with a non-empty value, loaded by any key-only operation",
           {"C19": "value-read-by-key-only-op"}),
}

def main():
    rows = []
    for sid in sorted(SEEDS):
        prop, what, needs, caught = SEEDS[sid]
        d = os.path.join(ROOT, sid)
        if not os.path.isdir(d):
            print("missing", sid)
            continue
        confirm = open(os.path.join(d, "confirm.txt")).read() if os.path.exists(os.path.join(d, "confirm.txt")) else ""
        meta = {
            "id": sid, "property": prop, "change": what, "needs_to_manifest": needs,
            "demonstration": "demo_test.go (drop into the repository root; fails with patch.diff applied, passes without)",
            "confirmed": confirm.strip().splitlines(),
            "detected_by": [{"check": f"./check {c} quick", "reported_as": s} for c, s in caught.items()],
            "how_run": f"tools/eval_seed.sh seeded/{sid} quick " + " ".join(caught.keys()) + "   (git apply to /repo, run, git checkout -- .)",
        }
        json.dump(meta, open(os.path.join(d, "meta.json"), "w"), indent=1)
        rows.append((sid, prop, what, ", ".join(f"{c}: {s}" for c, s in caught.items()) or "MISSED"))
    with open(os.path.join(ROOT, "README.md"), "w") as f:
        f.write("# Seeded changes\n\nEach directory holds one change to cbehopkins/gkvlite that breaks a property while compiling and passing the existing suite "
                "(written by a sub-agent that saw only the property text; confirmed in a scratch worktree, see confirm.txt).\n\n"
                "| id | property | change | detected by (quick tier, VERIF_SEED=1) |\n|---|---|---|---|\n")
        for r in rows:
            f.write("| " + " | ".join(x.replace("|", "/") for x in r) + " |\n")
    print("wrote", len(rows), "meta files")

if __name__ == "__main__":
    main()
