#!/usr/bin/env python3
"""Writes /verif/seeded/<id>/meta.json from the table below and regenerates
/verif/seeded/README.md.  The table is maintained by hand from the sub-agents'
reports (confirmed by tools/confirm_seed.sh) and from tools/eval_seed.sh runs."""
import json, os

ROOT = os.path.join(os.path.dirname(os.path.dirname(os.path.abspath(__file__))), "seeded")

# id: (property, what the change is, what it needs in order to manifest, {check: signature of the violation reported})
SEEDS = {
 "C01-1": ("C01", "treap.go union(): when an overwrite keeps the old node's position (existing priority > new priority) the node's byte total is computed from the replaced item",
           "overwrite of an existing key with a strictly lower priority and a value of different length, then GetTotals",
           {"C01": "contents (GetTotals bytes)", "C13": "contents"}),
 "C01-2": ("C01", "treap.go join(): the new root's byte total adds the other subtree root's item size (copy/paste slip between the symmetric branches)",
           "Delete of a present key whose node has two children, left root priority > right root priority, items of different sizes, then GetTotals",
           {"C01": "contents (GetTotals bytes)", "C13": "contents"}),
 "C02-1": ("C02", "store.go Flush(): skips the root record when no collection root looks dirty ('idle flush' fast path)",
           "RemoveCollection (or a Delete of a root item with one persisted child) followed by Flush and re-open",
           {"C02": "flush-no-root"}),
 "C02-2": ("C02", "store.go: the end-of-root-record bookkeeping is no longer initialised on the open path (moved into FlushRevert)",
           "two flushes, re-open, then FlushRevert on the re-opened store before any Flush of its own: store becomes empty, file truncated to 0",
           {"C02": "revert-file-length (after FlushRevert was added to the C02 profile; missed before)", "C08": "revert-file-length"}),
 "C03-1": ("C03", "store.go writeRoots(): when nothing was appended since the last root record the new root record overwrites the previous one in place",
           "a Flush that writes only a root record whose content differs (RemoveCollection, delete of a root whose subtree is persisted) and a crash inside that write",
           {"C03": "recording:flush-no-root / mixed or lost flush on torn images"}),
 "C03-2": ("C03", "store.go readRootsScan(): after a rejected end-marker candidate the backward scan steps back a whole minimal record length instead of one byte",
           "a doubled end marker inside uncommitted data (value starting with the marker, key <= 15 bytes) 1..43 bytes after the last good root record, crash anywhere after it",
           {"C03": "recrash:unexpected-error:NewStore and junk:unexpected-error:NewStore"}),
 "C05-1": ("C05", "store.go Flush(): the per-collection write loop calls the public Collection.Write() (which pins whatever version is current) instead of writing the version Flush pinned",
           "a collection mutated after Flush pinned it and before Flush wrote it, the pinned version being unflushed; file re-opened afterwards",
           {"C05": "flush-not-a-version"}),
 "C05-2": ("C05", "item.go itemLoc.read(): on a lost casItem race returns whatever item is cached instead of retrying (it may have been loaded keys-only)",
           "reader blocked in the value read of an evicted item while a visit evicts it and another descent re-loads it keys-only",
           {"C05": "inconsistent-read"}),
 "C06-1": ("C06", "treap.go visitNodes(): skips the value fetch when the item was already cached (possibly keys-only)",
           "file-backed store with items out of memory, a key-only access (Exist/GetItem(false)/Min/Max(false)) caching them without values, then a withValue visit over them",
           {"C06": "contents / visit-value"}),
 "C06-2": ("C06", "treap.go visitNodes(): depth not advanced when stepping past an out-of-range node",
           "an Ex visit whose target excludes at least one ancestor of a delivered item",
           {"C06": "depth-mismatch"}),
 "C07-1": ("C07", "item.go itemLoc.write(): size and item location are recorded before the value write, whose error is returned last",
           "fault exactly on a value WriteAt of a dirty item, retried Flush, then a read that goes to the file",
           {"C07": "contents (after retried flush)"}),
 "C07-2": ("C07", "treap.go walk(): a failed child-node read is folded into the 'no child' case; the inner item read's error variable shadows it",
           "freshly re-opened store, min/max not at the root, the single failing ReadAt being a non-root node read of MinItem/MaxItem/CopyTo",
           {"C07": "error-swallowed:MaxItem / VisitItemsAscendBlockEx"}),
 "C08-1": ("C08", "store.go: root-record-end bookkeeping moved into FlushRevert, lost on re-open",
           "file with >= 2 flushes, re-open, FlushRevert before any Flush on that store instance",
           {"C08": "revert-file-length"}),
 "C08-2": ("C08", "store.go writeRoots(): skips the root record when the roots JSON equals the last one written; FlushRevert never clears that cache",
           "an idle second Flush followed by FlushRevert, or a same-shape same-size redo after a revert",
           {"C08": "flush-no-root"}),
}

def main():
    rows = []
    for sid in sorted(SEEDS):
        prop, what, needs, caught = SEEDS[sid]
        d = os.path.join(ROOT, sid)
        if not os.path.isdir(d):
            print("missing", sid)
            continue
        confirm = open(os.path.join(d, "confirm.txt")).read() if os.path.exists(os.path.join(d, "confirm.txt")) else ""
        meta = {
            "id": sid, "property": prop, "change": what, "needs_to_manifest": needs,
            "demonstration": "demo_test.go (drop into the repository root; fails with patch.diff applied, passes without)",
            "confirmed": confirm.strip().splitlines(),
            "detected_by": [{"check": f"./check {c} quick", "reported_as": s} for c, s in caught.items()],
            "how_run": f"tools/eval_seed.sh seeded/{sid} quick " + " ".join(caught.keys()) + "   (git apply to /repo, run, git checkout -- .)",
        }
        json.dump(meta, open(os.path.join(d, "meta.json"), "w"), indent=1)
        rows.append((sid, prop, what, ", ".join(f"{c}: {s}" for c, s in caught.items()) or "MISSED"))
    with open(os.path.join(ROOT, "README.md"), "w") as f:
        f.write("# Seeded changes\n\nEach directory holds one change to cbehopkins/gkvlite that breaks a property while compiling and passing the existing suite "
                "(written by a sub-agent that saw only the property text; confirmed in a scratch worktree, see confirm.txt).\n\n"
                "| id | property | change | detected by (quick tier, VERIF_SEED=1) |\n|---|---|---|---|\n")
        for r in rows:
            f.write("| " + " | ".join(x.replace("|", "/") for x in r) + " |\n")
    print("wrote", len(rows), "meta files")

if __name__ == "__main__":
    main()
