#!/bin/bash
# usage: sweep.sh <tier> <repo-copy> <seed>...   (development aid: silence of all checks on a copy of the unchanged tree)
tier="$1"; repo="$2"; shift 2
cd "$(dirname "$0")/.."
for s in "$@"; do for p in ${PROPS:-$(./check --list)}; do
  t0=$(date +%s); out=$(VERIF_REPO="$repo" VERIF_SEED=$s ./check $p $tier 2>&1); rc=$?
  echo "SWEEP $p tier=$tier seed=$s exit=$rc $(( $(date +%s)-t0 ))s $(echo "$out" | tail -1 | cut -c1-110)"
  if [ $rc -ne 0 ]; then echo "$out" | grep -v '^\s*$' | tail -25 | cut -c1-600; fi
done; done
