package verifharness

import (
	"bytes"
	"sort"
)

// Comparator indices used throughout the harness.
const (
	CmpBytes    = 0
	CmpReverse  = 1
	CmpShortlex = 2
	NumCmp      = 3
)

func cmpReverse(a, b []byte) int { return bytes.Compare(b, a) }

func cmpShortlex(a, b []byte) int {
	if len(a) != len(b) {
		if len(a) < len(b) {
			return -1
		}
		return 1
	}
	return bytes.Compare(a, b)
}

// CmpFunc returns the comparator with the given index.
func CmpFunc(i int) func(a, b []byte) int {
	switch i {
	case CmpReverse:
		return cmpReverse
	case CmpShortlex:
		return cmpShortlex
	}
	return bytes.Compare
}

// cmpClosures: comparators handed to gkvlite are, in two cases out of three,
// closures created by one function literal (they share their code pointer, as
// comparators built by an application-side factory do) instead of distinct
// top-level functions.
var cmpClosures bool

// AppCmp returns the comparator the application hands to gkvlite for index i.
func AppCmp(i int) func(a, b []byte) int {
	f := CmpFunc(i)
	if !cmpClosures {
		return f
	}
	return func(a, b []byte) int { return f(a, b) }
}

// MItem is the model of one stored item.
type MItem struct {
	Val  []byte
	Prio int32
}

// MColl is the reference model of one collection: a plain map plus the
// comparator that orders it.
type MColl struct {
	Cmp   int
	Items map[string]MItem
}

// MState is the reference model of a whole store.
type MState struct {
	Colls map[string]*MColl
}

func NewMState() *MState { return &MState{Colls: map[string]*MColl{}} }

func (c *MColl) Clone() *MColl {
	n := &MColl{Cmp: c.Cmp, Items: make(map[string]MItem, len(c.Items))}
	for k, v := range c.Items {
		n.Items[k] = v // values are never mutated in place
	}
	return n
}

func (s *MState) Clone() *MState {
	n := NewMState()
	for name, c := range s.Colls {
		n.Colls[name] = c.Clone()
	}
	return n
}

// Names returns the sorted collection names.
func (s *MState) Names() []string {
	r := make([]string, 0, len(s.Colls))
	for n := range s.Colls {
		r = append(r, n)
	}
	sort.Strings(r)
	return r
}

// Keys returns the keys in ascending order under the collection's comparator.
func (c *MColl) Keys() [][]byte {
	ks := make([][]byte, 0, len(c.Items))
	for k := range c.Items {
		ks = append(ks, []byte(k))
	}
	f := CmpFunc(c.Cmp)
	sort.Slice(ks, func(i, j int) bool { return f(ks[i], ks[j]) < 0 })
	return ks
}

// curValExtra is the number of bytes the case's ItemValLength callback adds
// to every value's stored length (0 unless the case is "framed").
var curValExtra int

// Totals returns the item count and the sum of key+value lengths (value length
// as the store's ItemValLength callback defines it).
func (c *MColl) Totals() (uint64, uint64) {
	var b uint64
	for k, v := range c.Items {
		b += uint64(len(k) + len(v.Val) + curValExtra)
	}
	return uint64(len(c.Items)), b
}

// Ascend returns the keys >= target in ascending order.
func (c *MColl) Ascend(target []byte) [][]byte {
	f := CmpFunc(c.Cmp)
	var r [][]byte
	for _, k := range c.Keys() {
		if f(k, target) >= 0 {
			r = append(r, k)
		}
	}
	return r
}

// Descend returns the keys < target in descending order.
func (c *MColl) Descend(target []byte) [][]byte {
	f := CmpFunc(c.Cmp)
	ks := c.Keys()
	var r [][]byte
	for i := len(ks) - 1; i >= 0; i-- {
		if f(ks[i], target) < 0 {
			r = append(r, ks[i])
		}
	}
	return r
}

// Equal reports whether two states have identical names, comparators and items.
func (s *MState) Equal(o *MState) bool {
	if len(s.Colls) != len(o.Colls) {
		return false
	}
	for n, c := range s.Colls {
		d, ok := o.Colls[n]
		if !ok || len(c.Items) != len(d.Items) {
			return false
		}
		for k, v := range c.Items {
			w, ok := d.Items[k]
			if !ok || w.Prio != v.Prio || !bytes.Equal(w.Val, v.Val) {
				return false
			}
		}
	}
	return true
}

// NumItems is the total number of items over all collections.
func (s *MState) NumItems() int {
	n := 0
	for _, c := range s.Colls {
		n += len(c.Items)
	}
	return n
}

// CanonDepths returns, for pairwise distinct priorities, the depth every key
// has in the unique treap over (keys, priorities): the root is the maximum
// priority item, recursively.  ok is false if two priorities are equal.
func (c *MColl) CanonDepths() (depth map[string]uint64, ok bool) {
	ks := c.Keys()
	seen := map[int32]bool{}
	for _, k := range ks {
		p := c.Items[string(k)].Prio
		if seen[p] {
			return nil, false
		}
		seen[p] = true
	}
	depth = map[string]uint64{}
	var rec func(lo, hi int, d uint64)
	rec = func(lo, hi int, d uint64) {
		if lo >= hi {
			return
		}
		best := lo
		for i := lo + 1; i < hi; i++ {
			if c.Items[string(ks[i])].Prio > c.Items[string(ks[best])].Prio {
				best = i
			}
		}
		depth[string(ks[best])] = d
		rec(lo, best, d+1)
		rec(best+1, hi, d+1)
	}
	rec(0, len(ks), 0)
	return depth, true
}
