package verifharness

import (
	"bytes"
	"encoding/binary"
	"fmt"
	"sort"
	"strings"
	"unsafe"

	g "github.com/cbehopkins/gkvlite"
)

func sortSlice(ns []g.VerifNode, less func(i, j int) bool) {
	sort.Slice(ns, less)
}

// cache/mutation bookkeeping for the non-triviality rules -------------------

type collTrack struct {
	mutated       bool // a mutation happened on this collection
	cacheAfterMut bool // an effective evict / flush / reopen happened after a mutation
	replaced      bool // SetCollection replaced this (non-empty) collection's handle
}

var trackKey = func(ci int) string { return "track:" + collName(ci) }

func (w *World) track(ci int) *collTrack {
	if w.tracks == nil {
		w.tracks = map[string]*collTrack{}
	}
	n := collName(ci)
	t := w.tracks[n]
	if t == nil {
		t = &collTrack{}
		w.tracks[n] = t
	}
	return t
}

func (w *World) noteMut(ci int) {
	t := w.track(ci)
	if t.cacheAfterMut {
		w.ev["mut_cache_mut"]++
		t.cacheAfterMut = false
	}
	t.mutated = true
	if t.replaced {
		w.ev["mut_after_replace"]++
	}
	if w.released > 0 {
		w.ev["mut_after_release"]++
	}
}

func (w *World) noteCache(ci int) {
	t := w.track(ci)
	if t.mutated {
		t.cacheAfterMut = true
	}
}

func (w *World) noteCacheAll() {
	for _, t := range w.tracks {
		if t.mutated {
			t.cacheAfterMut = true
		}
	}
}

func (w *World) noteFlushed() { w.noteCacheAll() }

// structural checks ---------------------------------------------------------

// allHandles lists every open store handle.
func (w *World) allHandles() []*Handle {
	var hs []*Handle
	if !w.orig.closed {
		hs = append(hs, w.orig)
	}
	hs = append(hs, w.snaps...)
	return hs
}

func (w *World) structuralChecks() {
	w.refStep()
	var free, freeLocs, freeRoots map[unsafe.Pointer]bool
	if w.opt.FreeCheck {
		var cyclic, cyclic2 bool
		free, cyclic = g.VerifFreeNodes()
		freeLocs, freeRoots, cyclic2 = g.VerifFreeHandles()
		if cyclic || cyclic2 {
			w.failf("freelist-cyclic", "a free list is cyclic (something was freed twice)")
		}
	}
	for _, h := range w.allHandles() {
		for _, name := range h.m.Names() {
			c := h.st.GetCollection(name)
			if c == nil {
				continue
			}
			mc := h.m.Colls[name]
			if w.opt.FreeCheck {
				rp, np := c.VerifRootHandles()
				if rp != nil && freeRoots[rp] {
					w.failf("live-version-freed", "collection %q: the version handle of an open collection sits on the rootNodeLoc free list", name)
				}
				if np != nil && freeLocs[np] {
					w.failf("live-root-nodeloc-freed", "collection %q: the root nodeLoc of an open collection's current version sits on the nodeLoc free list", name)
				}
			}
			var nodes []g.VerifNode
			complete := c.VerifWalk(4*len(mc.Items)+64, func(n g.VerifNode) { nodes = append(nodes, n) })
			if !complete {
				w.failf("tree-cyclic", "collection %q: the cached tree has more nodes than 4x the item count (%d): cyclic or corrupted", name, len(mc.Items))
			}
			for _, n := range nodes {
				if free != nil && free[n.Ptr] {
					w.failf("live-node-freed", "collection %q: node at path %q is reachable from an open handle but sits on the free list", name, n.Path)
				}
				if w.opt.FreeCheck && n.NumNodes == 0 {
					w.failf("live-node-zeroed", "collection %q: reachable node at path %q has numNodes==0 (recycled)", name, n.Path)
				}
				if w.opt.FreeCheck && n.Marked && !h.snap && w.inVisit == 0 {
					// Only nodes that a newer version has replaced carry a reclaim mark;
					// a marked node inside the *current* version of the writable store
					// will be freed, while still reachable, when the version changes.
					w.failf("live-node-marked", "collection %q: node at path %q belongs to the current version but carries a reclaim mark (left behind by an earlier call); the next version change will recycle it while it is reachable", name, n.Path)
				}
				if w.rc != nil && n.Item != nil && w.rc.cnt[n.Item] <= 0 {
					w.failf("refcount-not-positive", "collection %q: cached item %s reachable from an open handle has count %d", name, qb(n.Item.Key), w.rc.cnt[n.Item])
				}
			}
			if w.opt.TreeCheck && w.deep {
				w.treeCheck(h, name, c, mc, nodes)
			}
		}
	}
}

// nodeAgg reads numNodes/numBytes of a persisted node record directly from
// the file bytes (independent of gkvlite's decoder).
func nodeAgg(img []byte, off int64, length uint32) (nn, nb uint64, ok bool) {
	if length != 52 || off < 0 || off+52 > int64(len(img)) {
		return 0, 0, false
	}
	return binary.BigEndian.Uint64(img[off+36:]), binary.BigEndian.Uint64(img[off+44:]), true
}

// treeCheck asserts the C13 invariants on one collection.
func (w *World) treeCheck(h *Handle, name string, c *g.Collection, mc *MColl, nodes []g.VerifNode) {
	// (b) exact aggregates on every cached node
	byPath := map[string]*g.VerifNode{}
	for i := range nodes {
		byPath[nodes[i].Path] = &nodes[i]
	}
	var img []byte
	if w.file != nil {
		img = w.file.B
	}
	child := func(n *g.VerifNode, side byte) (nn, nb uint64, known bool) {
		empty, cached, off, ln := n.LeftEmpty, n.LeftCached, n.LeftOff, n.LeftLen
		if side == 'R' {
			empty, cached, off, ln = n.RightEmpty, n.RightCached, n.RightOff, n.RightLen
		}
		if empty {
			return 0, 0, true
		}
		if cached {
			ch := byPath[n.Path+string(side)]
			if ch == nil {
				return 0, 0, false
			}
			return ch.NumNodes, ch.NumBytes, true
		}
		if img == nil {
			return 0, 0, false
		}
		nn, nb, ok := nodeAgg(img, off, ln)
		return nn, nb, ok
	}
	for i := range nodes {
		n := &nodes[i]
		ln, lb, lk := child(n, 'L')
		rn, rb, rk := child(n, 'R')
		if !lk || !rk {
			w.failf("node-child-unreadable", "collection %q node %q: a child is neither cached nor a readable 52-byte record", name, n.Path)
		}
		var ib uint64
		switch {
		case n.Item != nil && n.Item.Val != nil:
			ib = uint64(len(n.Item.Key) + len(n.Item.Val) + curValExtra)
		case n.ItemLen >= 16:
			ib = uint64(n.ItemLen - 16)
		default:
			w.failf("node-item-unknown", "collection %q node %q has neither a cached item with value nor a persisted item", name, n.Path)
		}
		if n.NumNodes != 1+ln+rn {
			w.failf("agg-count", "collection %q node %q records numNodes=%d, its subtrees hold %d+%d (+1)", name, n.Path, n.NumNodes, ln, rn)
		}
		if n.NumBytes != ib+lb+rb {
			w.failf("agg-bytes", "collection %q node %q records numBytes=%d, item %d + subtrees %d+%d", name, n.Path, n.NumBytes, ib, lb, rb)
		}
		w.ev["agg_nodes_checked"]++
	}
	// (a) search order and shape through the public API
	full, err := scanAll(h.st, c, false, w.rc)
	if err != nil {
		w.failf("scan-error", "collection %q: full scan failed: %v", name, err)
	}
	if len(full) != len(mc.Items) {
		return // contents oracle reports
	}
	w.shapeCheck(name, mc, full, "")
}

// shapeCheck asserts search order, binary-tree shape, heap order and the
// canonical treap shape on an in-order (key, priority, depth) sequence; where
// says which representation the sequence came from ("" = the live tree through
// the public API, otherwise the persisted tree read by the independent decoder).
func (w *World) shapeCheck(name string, mc *MColl, full []kvp, where string) {
	f := CmpFunc(mc.Cmp)
	ds := make([]uint64, len(full))
	for i, e := range full {
		ds[i] = e.d
		if i > 0 && f(full[i-1].k, e.k) >= 0 {
			w.failf("order", "collection %q%s: keys %s, %s are not strictly ascending under the comparator", name, where, qb(full[i-1].k), qb(e.k))
		}
	}
	if msg := validInorderDepths(ds); msg != "" {
		w.failf("depth-shape", "collection %q%s: reported depths are not those of a binary tree: %s (depths %v)", name, where, msg, ds)
	}
	// (d) heap order and canonical shape while no lowering overwrite happened
	if w.lowered[name] {
		return
	}
	// parent of position i: nearest position with depth d-1 on either side that encloses it;
	// reconstruct by recursion
	var rec func(lo, hi int, d uint64, parent int)
	rec = func(lo, hi int, d uint64, parent int) {
		if lo >= hi {
			return
		}
		root := lo
		for i := lo; i < hi; i++ {
			if ds[i] == d {
				root = i
				break
			}
		}
		if parent >= 0 && full[parent].p < full[root].p {
			w.failf("heap-order", "collection %q%s: %s (priority %d) is the parent of %s (priority %d) although no key was ever overwritten with a lower priority",
				name, where, qb(full[parent].k), full[parent].p, qb(full[root].k), full[root].p)
		}
		rec(lo, root, d+1, root)
		rec(root+1, hi, d+1, root)
	}
	rec(0, len(full), 0, -1)
	w.ev["heap_checked"]++
	if canon, ok := mc.CanonDepths(); ok {
		for _, e := range full {
			if canon[string(e.k)] != e.d {
				w.failf("canonical-shape", "collection %q%s: key %s reported at depth %d, the unique treap over the current keys and priorities puts it at depth %d", name, where, qb(e.k), e.d, canon[string(e.k)])
			}
		}
		if len(full) >= 4 {
			w.ev["canonical_checked_4plus"]++
		}
		w.ev["canonical_checked"]++
	}
}

// persistedTreeCheck (C13, after every successful Flush): the tree as persisted
// on file, read by the independent decoder from the new root record, is a search
// tree whose every node records its exact aggregates, with heap order and the
// canonical shape under the same conditions as in memory.  Layout problems are
// C14's business and are not reported here.
func (w *World) persistedTreeCheck() {
	top := w.durable[len(w.durable)-1]
	d, err := DecodeAt(w.file.B, top.fileLen, func(name string) int {
		if mc := top.ms.Colls[name]; mc != nil {
			return mc.Cmp
		}
		return 0
	})
	if err != nil {
		if strings.HasPrefix(err.Error(), "persisted node at") {
			w.failf("persisted-agg", "after Flush: %v", err)
		}
		return
	}
	for _, name := range top.ms.Names() {
		mc, dc := top.ms.Colls[name], d.Colls[name]
		if mc == nil || dc == nil || len(dc.Items) != len(mc.Items) {
			continue // contents oracles report this
		}
		full := make([]kvp, len(dc.Items))
		for i, it := range dc.Items {
			full[i] = kvp{k: it.Key, p: it.Prio, d: uint64(it.Depth)}
		}
		w.shapeCheck(name, mc, full, " (as persisted on file)")
		w.ev["persisted_tree_checked"]++
	}
}

// C09 monitor ---------------------------------------------------------------

func (w *World) durableEnd() int64 {
	if len(w.durable) == 0 {
		return 0
	}
	return w.durable[len(w.durable)-1].fileLen
}

// preStep records what the monitor needs to know about the state before an op.
func (w *World) preStep() {
	if !w.opt.Monitor || w.file == nil {
		return
	}
	w.monPrevD = w.durableEnd()
	d := w.monPrevD
	if d > int64(len(w.file.B)) {
		d = int64(len(w.file.B))
	}
	w.monPrefix = append(w.monPrefix[:0], w.file.B[:d]...)
	w.monDurableBefore = w.monDurableBefore[:0]
	for _, du := range w.durable {
		w.monDurableBefore = append(w.monDurableBefore, du.fileLen)
	}
}

// monitorCheck inspects the file calls logged since the last check.  Log
// records carry API = 2*opIndex for calls made by the op itself and
// 2*opIndex+1 for calls made by the harness's read-only comparisons.
func (w *World) monitorCheck() {
	if w.file == nil {
		return
	}
	recs := w.file.Log[w.logPos:]
	w.logPos = len(w.file.Log)
	for _, r := range recs {
		if r.Kind != IOWrite && r.Kind != IOTrunc {
			continue
		}
		kind := "open"
		if r.API%2 != 0 {
			kind = "read-only comparison (scans, lookups, totals)"
		} else if i := r.API / 2; r.API >= 0 && i < len(w.c.Ops) {
			kind = w.c.Ops[i].K
		}
		switch r.Kind {
		case IOWrite:
			if kind != OpFlush && kind != OpWrite {
				w.failf("write-on-read-path", "WriteAt at offset %d (len %d) was issued during %q, which must never write", r.Off, r.Len, kind)
			}
			if r.Off < w.monPrevD {
				w.failf("write-below-durable-end", "WriteAt offset %d (len %d) lies below the end of the last durable root record (%d)", r.Off, r.Len, w.monPrevD)
			}
			w.ev["mon_writes"]++
		case IOTrunc:
			if kind != OpRevert {
				w.failf("truncate-outside-revert", "Truncate(%d) was issued during %q; only FlushRevert on the writable store may truncate", r.Off, kind)
			}
			okSize := r.Off == 0
			for _, d := range w.monDurableBefore {
				if d == r.Off {
					okSize = true
				}
			}
			if !okSize {
				w.failf("truncate-size", "Truncate(%d): not the end of any root record (%v) nor zero", r.Off, w.monDurableBefore)
			}
			w.ev["mon_truncs"]++
		}
	}
	// no byte below min(previous durable end, current durable end) changed
	d := w.monPrevD
	if e := w.durableEnd(); e < d {
		d = e
	}
	if d > int64(len(w.monPrefix)) {
		d = int64(len(w.monPrefix))
	}
	if int64(len(w.file.B)) < d || !bytes.Equal(w.file.B[:d], w.monPrefix[:d]) {
		w.failf("durable-prefix-modified", "bytes below the last durable root record (offset < %d) changed", d)
	}
	w.ev["mon_checks"]++
}

// other stores / churn ------------------------------------------------------

// otherStore is an unrelated memory-only store in the same process; it shares
// nothing with the case's store except gkvlite's package-global free lists.
type otherStore struct {
	st  *g.Store
	m   *MState
	seq uint32
}

func newOtherStore(w *World, i int) *otherStore {
	st, err := g.NewStore(nil)
	if err != nil {
		w.failf("other-open", "NewStore(nil): %v", err)
	}
	o := &otherStore{st: st, m: NewMState(), seq: uint32(i)*7919 + 1}
	st.SetCollection("o", nil)
	o.m.Colls["o"] = &MColl{Items: map[string]MItem{}}
	return o
}

func (o *otherStore) next() uint32 {
	o.seq = o.seq*1664525 + 1013904223
	return o.seq >> 8
}

// activity performs n pseudo-random mutations (pure function of the store's own sequence).
func (o *otherStore) activity(w *World, n int) {
	c := o.st.GetCollection("o")
	mc := o.m.Colls["o"]
	for i := 0; i < n; i++ {
		r := o.next()
		key := []byte(fmt.Sprintf("o%02d", r%23))
		if r%5 == 0 {
			was, err := c.Delete(key)
			_, had := mc.Items[string(key)]
			if err != nil || was != had {
				w.failf("other-store", "unrelated store: Delete(%s) = %v,%v, model present=%v", qb(key), was, err, had)
			}
			delete(mc.Items, string(key))
			continue
		}
		val := []byte(fmt.Sprintf("v%d", r))
		prio := int32(r % 1000)
		if err := c.SetItem(&g.Item{Key: key, Val: val, Priority: prio}); err != nil {
			w.failf("other-store", "unrelated store: SetItem error %v", err)
		}
		mc.Items[string(key)] = MItem{Val: val, Prio: prio}
	}
}

func (o *otherStore) check(w *World) {
	if msg := CompareStore(o.st, o.m); msg != "" {
		w.failf("other-store", "an unrelated store in the same process was disturbed: %s", msg)
	}
}

// churn allocates nodes so that any node wrongly put on the free list is
// reused (and overwritten) by somebody else.
func (w *World) churn(n int) {
	if n <= 0 {
		n = 8
	}
	if n > 64 {
		n = 64
	}
	if len(w.others) > 0 {
		o := w.others[w.opIdx%len(w.others)]
		if w.opIdx < 0 {
			o = w.others[0]
		}
		o.activity(w, n)
		w.ev["churn"]++
		return
	}
	if w.churnStore == nil {
		w.churnStore = newOtherStore(w, 99)
		w.others = append(w.others, w.churnStore)
	}
	w.churnStore.activity(w, n)
	w.ev["churn"]++
}
