package verifharness

import (
	"encoding/json"
	"fmt"
	"os"
	"sort"
	"strings"
	"testing"

	g "github.com/cbehopkins/gkvlite"
)

// Golden files: images written once by the pinned (repaired) build together
// with the state they hold.  The current build must read them back to exactly
// that state (reader side of cross-build compatibility), and the independent
// decoder must agree.

func goldenDir() string {
	if d := os.Getenv("VERIF_GOLDEN"); d != "" {
		return d
	}
	return "/verif/golden"
}

type goldenItem struct {
	K []byte `json:"k"`
	V []byte `json:"v"`
	P int32  `json:"p"`
}
type goldenColl struct {
	Cmp   int          `json:"cmp"`
	Items []goldenItem `json:"items"`
}
type goldenState struct {
	Colls map[string]goldenColl `json:"colls"`
	Note  string                `json:"note"`
}

func stateToGolden(ms *MState, note string) goldenState {
	gs := goldenState{Colls: map[string]goldenColl{}, Note: note}
	for n, c := range ms.Colls {
		gc := goldenColl{Cmp: c.Cmp}
		for _, k := range c.Keys() {
			it := c.Items[string(k)]
			gc.Items = append(gc.Items, goldenItem{K: k, V: it.Val, P: it.Prio})
		}
		gs.Colls[n] = gc
	}
	return gs
}

func loadGoldenState(path string) (*MState, error) {
	b, err := os.ReadFile(path)
	if err != nil {
		return nil, err
	}
	var gs goldenState
	if err := json.Unmarshal(b, &gs); err != nil {
		return nil, err
	}
	ms := NewMState()
	for n, c := range gs.Colls {
		mc := &MColl{Cmp: c.Cmp, Items: map[string]MItem{}}
		for _, it := range c.Items {
			v := it.V
			if v == nil {
				v = []byte{}
			}
			mc.Items[string(it.K)] = MItem{Val: v, Prio: it.P}
		}
		ms.Colls[n] = mc
	}
	return ms, nil
}

// goldenCases are the fixed histories whose files are kept under /verif/golden.
func goldenCases() map[string]Case {
	big := make([]byte, 4096)
	for i := range big {
		big[i] = byte(i * 7)
	}
	longKey := []byte(strings.Repeat("K", 65535))
	set := func(c int, k string, v string, p int32) Op {
		return Op{K: OpSet, C: c, Key: []byte(k), Val: []byte(v), Prio: p}
	}
	cs := map[string]Case{}
	cs["g1-single"] = Case{Ops: []Op{set(0, "a", "A", 3), {K: OpFlush}}}
	cs["g2-multiflush"] = Case{Ops: []Op{set(0, "a", "A", 3), set(0, "b", "", 9), set(1, "x", "X", 1), {K: OpFlush},
		set(0, "a", "A2", 7), {K: OpDel, C: 1, Key: []byte("x")}, set(2, "q", "Q", 2), {K: OpFlush},
		{K: OpEvict, C: 0, N: 4}, set(0, "c", "C", 1), {K: OpRmColl, C: 2}, {K: OpFlush}}}
	cs["g3-reverted"] = Case{Ops: []Op{set(0, "a", "A", 3), {K: OpFlush}, set(0, "b", "B", 4), {K: OpFlush}, set(0, "c", "C", 5), {K: OpFlush}, {K: OpRevert},
		set(3, "\xff\xff", "z", 2147483647), {K: OpFlush}}}
	var many []Op
	for i := 0; i < 200; i++ {
		many = append(many, set(i%2, fmt.Sprintf("key-%04d", (i*37)%1000), fmt.Sprintf("value-%d", i), int32((i*7919)%100000)))
		if i%60 == 59 {
			many = append(many, Op{K: OpFlush}, Op{K: OpEvict, C: i % 2, N: 5})
		}
	}
	many = append(many, Op{K: OpFlush})
	cs["g4-many"] = Case{Ops: many}
	cs["g5-bigkeyval"] = Case{Ops: []Op{{K: OpSet, C: 4, Key: longKey, Val: big, Prio: 5}, set(4, "s", "", 0), {K: OpFlush}, {K: OpReopen},
		{K: OpSet, C: 4, Key: []byte("t"), Val: big[:300], Prio: 1}, {K: OpFlush}}}
	cs["g6-comparators"] = Case{Cfg: Config{DefCmp: CmpShortlex}, Ops: []Op{{K: OpSetColl, C: 1, Flag: CmpReverse}, set(0, "bb", "1", 1), set(0, "a", "2", 2), set(0, "ccc", "3", 3),
		set(1, "a", "1", 5), set(1, "b", "2", 4), set(1, "c", "3", 3), {K: OpFlush}}}
	cs["g7-empty"] = Case{Ops: []Op{{K: OpSetColl, C: 0}, {K: OpSetColl, C: 3}, {K: OpFlush}}}
	for n, c := range cs {
		c.Cfg.Profile = "C14-format"
		c.Cfg.RandSeed = 1
		c.Cfg.CheckEvery = 1
		cs[n] = c
	}
	return cs
}

// TestGoldenWrite (VERIF_WRITE_GOLDEN=1) writes the golden files with the build under test.
func TestGoldenWrite(t *testing.T) {
	if os.Getenv("VERIF_WRITE_GOLDEN") == "" {
		t.Skip("VERIF_WRITE_GOLDEN not set")
	}
	os.MkdirAll(goldenDir(), 0755)
	for name, c := range goldenCases() {
		name := name
		opts := Specs["C14"].Opts
		opts.After = func(w *World) {
			top := w.durable[len(w.durable)-1]
			img := w.file.B[:top.fileLen]
			if err := os.WriteFile(goldenDir()+"/"+name+".gkv", img, 0644); err != nil {
				t.Fatal(err)
			}
			b, _ := json.MarshalIndent(stateToGolden(top.ms, name), "", " ")
			if err := os.WriteFile(goldenDir()+"/"+name+".json", b, 0644); err != nil {
				t.Fatal(err)
			}
		}
		if v, _ := Run(c, opts); v != nil {
			t.Fatalf("%s: %v", name, v)
		}
	}
}

// goldenCheck reads one golden file with the current build and the decoder.
func goldenCheck(name string) (*Violation, string) {
	fail := func(sig, msg string) (*Violation, string) {
		return &Violation{Prop: "C14", Sig: sig, Msg: "golden file " + name + ": " + msg}, ""
	}
	img, err := os.ReadFile(goldenDir() + "/" + name + ".gkv")
	if err != nil {
		return fail("harness", err.Error())
	}
	want, err := loadGoldenState(goldenDir() + "/" + name + ".json")
	if err != nil {
		return fail("harness", err.Error())
	}
	cmpFor := func(n string) int {
		if mc := want.Colls[n]; mc != nil {
			return mc.Cmp
		}
		return 0
	}
	cbs := g.StoreCallbacks{KeyCompareForCollection: func(n string) g.KeyCompare { return CmpFunc(cmpFor(n)) }}
	var v *Violation
	func() {
		defer func() {
			if r := recover(); r != nil {
				v, _ = fail("panic", fmt.Sprint(r))
			}
		}()
		s, err := g.NewStoreEx(FileFromImage(img), cbs)
		if err != nil {
			v, _ = fail("golden-open", err.Error())
			return
		}
		if msg := CompareStore(s, want); msg != "" {
			v, _ = fail("golden-contents", "the current build reads it as a different state: "+msg)
			return
		}
		end, ok := FindLastRoot(img)
		if !ok || end != int64(len(img)) {
			v, _ = fail("golden-decode", "decoder finds no root record at the end")
			return
		}
		d, err := DecodeAt(img, end, cmpFor)
		if err != nil {
			v, _ = fail("golden-decode", err.Error())
			return
		}
		if msg := CompareDecoded(d, want); msg != "" {
			v, _ = fail("golden-decode", msg)
		}
	}()
	return v, fmt.Sprintf("golden %s (%d bytes, %d collections, %d items)", name, len(img), len(want.Colls), want.NumItems())
}

func TestC14Golden(t *testing.T) {
	st := NewStats("C14", "golden files: images written once by the pinned build (multi-flush, multi-collection, evicted, reverted, 65535-byte key, 4 KiB value, custom comparators, empty collections) must be read by the current build to exactly the recorded state and decode identically with the independent decoder", commonAssumptions)
	defer func() {
		if p := outPath(); p != "" {
			st.Write(p)
		}
	}()
	if sh, _ := shardOf(); sh != 0 {
		return
	}
	entries, err := os.ReadDir(goldenDir())
	if err != nil {
		t.Fatalf("no golden directory: %v", err)
	}
	var names []string
	for _, e := range entries {
		if strings.HasSuffix(e.Name(), ".gkv") {
			names = append(names, strings.TrimSuffix(e.Name(), ".gkv"))
		}
	}
	sort.Strings(names)
	for _, name := range names {
		c := Case{Cfg: Config{Profile: "C14-golden", Note: name}}
		v, desc := goldenCheck(name)
		if v != nil {
			failNow(t, "C14", c, v)
		}
		st.Note(c.Hash(), map[string]int{"golden_file": 1}, true, func() string { return desc })
	}
}

func init() {
	replayers["C14"] = func(c Case) *Violation {
		if c.Cfg.Profile == "C14-golden" {
			v, _ := goldenCheck(c.Cfg.Note)
			return v
		}
		v, _ := Run(c, Specs["C14"].Opts)
		return v
	}
}
