package verifharness

import (
	"encoding/binary"
	"fmt"
)

// C03 engine: crash-point enumeration.
//
// A generated history runs once on a MemFile that logs every WriteAt with its
// payload.  The ordered write log W1..Wm is the crash space: for every i and
// every byte count j in [0,len(Wi)] the image "W1..W(i-1) applied, first j
// bytes of Wi applied" is rebuilt and re-opened.

var profCrash = &Profile{
	Name: "C03-crash", MinOps: 2, MaxOps: 25, NColls: 3, Hostile: true, EndOnly: 100,
	Kinds: []wk{{OpSet, 40}, {OpSetR, 3}, {OpDel, 12}, {OpFlush, 22}, {OpEvict, 5}, {OpReopen, 6}, {OpSetColl, 4}, {OpRmColl, 4}, {OpWrite, 4}, {OpSet, 4}},
}

// profCont generates the continuation run on a recovered store.
var profCont = &Profile{
	Name: "C03-cont", MinOps: 1, MaxOps: 6, NColls: 3, Hostile: true,
	Kinds: []wk{{OpSet, 50}, {OpDel, 20}, {OpFlush, 12}, {OpSetColl, 5}, {OpRmColl, 5}, {OpEvict, 4}, {OpWrite, 4}, {OpSet, 4}},
}

// hostileValue derives, at run time, a value that resembles root-record
// material of this very file (never a complete self-consistent record: a copy
// of a real record keeps its original recorded offset, which cannot equal the
// offset it is stored at).
func (w *World) hostileValue(kind int, fallback []byte) []byte {
	if w.file == nil || len(w.durable) == 0 {
		return fallback
	}
	top := w.durable[len(w.durable)-1]
	off, _, err := rootAt(w.file.B, top.fileLen)
	if err != nil {
		return fallback
	}
	rec := append([]byte{}, w.file.B[off:top.fileLen]...)
	w.ev["hostile_rootcopy"]++
	if kind%4 == 1 {
		// A verbatim copy is inconsistent only because it cannot be stored at the offset
		// it records - which holds as long as the file never shrinks.  In a case that
		// contains a FlushRevert the copy could land exactly there again, i.e. become a
		// complete self-consistent root record: there the copy's recorded offset is
		// moved beyond any possible file size (everything else stays byte-exact).
		for i := range w.c.Ops {
			if w.c.Ops[i].K == OpRevert {
				o := binary.BigEndian.Uint64(rec[len(rec)-24:])
				binary.BigEndian.PutUint64(rec[len(rec)-24:], o+1<<40)
				break
			}
		}
	}
	switch kind % 4 {
	case 1:
		return rec // complete copy of the last root record (relocated, hence inconsistent)
	case 2:
		return rec[:len(rec)-1] // truncated copy
	case 3:
		return rec[len(rec)-24:] // only the trailer: offset, length, doubled end magic
	default:
		// trailer claiming the position the store will append at next
		t := append([]byte{}, rec[len(rec)-24:]...)
		binary.BigEndian.PutUint64(t[0:8], uint64(w.orig.st.VerifSize()))
		return t
	}
}

// flushPoint is one completed flush of the recorded run.
type flushPoint struct {
	writes int // number of WriteAt calls issued up to and including its root record
	ms     *MState
	end    int64
}

// crashRecording is what the recorded run leaves behind.
type crashRecording struct {
	writes  []IORec // every WriteAt with payload, in order
	flushes []flushPoint
}

// recordRun executes the history once and records writes and flush points.
func recordRun(c Case) (*Violation, *crashRecording, map[string]int) {
	rec := &crashRecording{}
	opts := RunOpts{Prop: "C03", KeepData: true}
	countWrites := func(w *World) int {
		n := 0
		for _, r := range w.file.Log {
			if r.Kind == IOWrite {
				n++
			}
		}
		return n
	}
	opts.Hook = func(w *World, phase string, i int, op *Op) {
		if op.K == OpFlush && w.file != nil && len(w.durable) > len(rec.flushes) {
			top := w.durable[len(w.durable)-1]
			rec.flushes = append(rec.flushes, flushPoint{writes: countWrites(w), ms: top.ms.Clone(), end: top.fileLen})
		}
	}
	opts.After = func(w *World) {
		for _, r := range w.file.Log {
			if r.Kind == IOWrite {
				rec.writes = append(rec.writes, r)
			}
		}
	}
	v, ev := Run(c, opts)
	return v, rec, ev
}

// imageAt rebuilds the file as it is after writes 0..i-1 completed and the
// first j bytes of write i were applied.
func (r *crashRecording) imageAt(i, j int) []byte {
	f := &MemFile{}
	for k := 0; k < i; k++ {
		if len(r.writes[k].Data) > 0 {
			f.writeRaw(r.writes[k].Data, r.writes[k].Off)
		}
	}
	if i < len(r.writes) && j > 0 {
		f.writeRaw(r.writes[i].Data[:j], r.writes[i].Off)
	}
	return f.B
}

// expectedAt returns the durable states recoverable from image (i,j).
func (r *crashRecording) expectedAt(i, j int) []Durable {
	complete := i
	if i < len(r.writes) && j == len(r.writes[i].Data) {
		complete = i + 1
	}
	var ds []Durable
	for _, f := range r.flushes {
		if f.writes <= complete {
			ds = append(ds, Durable{ms: f.ms, fileLen: f.end})
		}
	}
	return ds
}

// isRootWrite reports whether write i is a root record.
func (r *crashRecording) isRootWrite(i int) bool {
	d := r.writes[i].Data
	return len(d) >= decRootFixed && string(d[:12]) == decMagicBeg+decMagicBeg
}

// checkImage re-opens image (i,j) and compares it with the last completed
// flush; cont (may be empty) is then run on the recovered store with the
// durability oracle on, followed by one re-crash of the continuation's last flush.
func (r *crashRecording) checkImage(base Case, i, j int, cont []Op, junk []byte) (*Violation, map[string]int) {
	img := r.imageAt(i, j)
	exp := r.expectedAt(i, j)
	if len(junk) > 0 {
		img = append(append([]byte{}, img...), junk...)
	}
	c := Case{Cfg: base.Cfg, Ops: cont}
	c.Cfg.Profile = "C03-crash"
	opts := RunOpts{Prop: "C03", Probe: true, InitImage: img, InitDurable: exp, KeepData: len(cont) > 0}
	if len(img) == 0 {
		opts.InitImage = []byte{}
	}
	var v2 *Violation
	if len(cont) > 0 {
		opts.After = func(w *World) {
			// re-crash: tear the last root record written by the continuation in half
			last := -1
			for k, rec := range w.file.Log {
				if rec.Kind == IOWrite && len(rec.Data) >= decRootFixed && string(rec.Data[:12]) == decMagicBeg+decMagicBeg {
					last = k
				}
			}
			if last < 0 || len(w.durable) == 0 {
				return
			}
			rec := w.file.Log[last]
			if rec.Off+int64(len(rec.Data)) != w.durable[len(w.durable)-1].fileLen {
				return // a later op rewrote things; not the final flush
			}
			cut := append([]byte{}, w.file.B[:rec.Off+int64(len(rec.Data))/2]...)
			prev := w.durable[:len(w.durable)-1]
			cc := Case{Cfg: base.Cfg}
			cc.Cfg.Profile = "C03-crash"
			v2, _ = Run(cc, RunOpts{Prop: "C03", Probe: true, InitImage: cut, InitDurable: prev})
			if v2 != nil {
				v2.Msg = "after recovering, mutating and flushing again, a crash in the middle of that flush's root record: " + v2.Msg
				v2.Sig = "recrash:" + v2.Sig
			}
		}
	}
	v, ev := Run(c, opts)
	if v == nil && v2 != nil {
		v = v2
	}
	if v != nil {
		v.Msg = fmt.Sprintf("crash image: writes 1..%d complete, %d of %d bytes of write %d (offset %d) applied, %d junk bytes after the cut, image %d bytes; %d completed flush(es) recoverable: %s",
			i, j, r.lenOf(i), i+1, r.offOf(i), len(junk), len(img), len(exp), v.Msg)
		if len(junk) > 0 {
			v.Sig = "junk:" + v.Sig
		}
	}
	return v, ev
}

func (r *crashRecording) lenOf(i int) int {
	if i < len(r.writes) {
		return len(r.writes[i].Data)
	}
	return 0
}

func (r *crashRecording) offOf(i int) int64 {
	if i < len(r.writes) {
		return r.writes[i].Off
	}
	return -1
}

// junkFor builds the junk that is left after the cut: kind 0 random bytes, 1 a
// marker fragment, 2 a truncated copy of a real root record of this file, 3 a
// complete but relocated copy of a real root record (its recorded offset
// cannot match where it lies now), 4 zero bytes.  ok is false when the junk
// would be a complete self-consistent root record for this image.
func (r *crashRecording) junkFor(kind, pick int, raw []byte, imgLen int) (junk []byte, ok bool) {
	var roots []IORec
	for i := range r.writes {
		if r.isRootWrite(i) {
			roots = append(roots, r.writes[i])
		}
	}
	switch kind % 6 {
	case 5:
		return framedNearRecord(pick, imgLen), true
	case 1:
		return hostileVals[pick%len(hostileVals)], true
	case 2:
		if len(roots) == 0 {
			return raw, len(raw) > 0
		}
		d := roots[pick%len(roots)].Data
		return d[:len(d)-1-pick%(len(d)/2)], true
	case 3:
		if len(roots) == 0 {
			return raw, len(raw) > 0
		}
		rw := roots[pick%len(roots)]
		if int64(imgLen) == rw.Off {
			return nil, false // would land exactly where it was written: a real, complete record
		}
		return rw.Data, true
	case 4:
		return make([]byte, 1+pick%64), true
	}
	return raw, len(raw) > 0
}

// sweepLengths are the junk-tail lengths of the tail sweep: the neighbourhoods
// of k*B for power-of-two block sizes B (a backward scan that works in blocks
// can only go wrong where the root record's end markers meet a block boundary,
// i.e. at tail lengths just below a multiple of its block size).
func sweepLengths() []int {
	var ls []int
	for _, b := range []int{4096, 8192, 16384, 32768, 65536} {
		for k := 1; k <= 2; k++ {
			for l := k*b - 72; l <= k*b+24; l++ {
				ls = append(ls, l)
			}
		}
	}
	// and a few very long tails (an uncommitted multi-megabyte flush)
	for d := -8; d <= 8; d++ {
		ls = append(ls, 1<<20+d)
	}
	ls = append(ls, 2<<20-1, 2<<20+1, 4<<20+1, 16<<20+1)
	return ls
}

// checkTail opens the complete recorded file followed by n junk bytes (fill
// repeated): the junk holds no root record, so the store must come up in the
// state of the last flush however long the tail is.
func (r *crashRecording) checkTail(base Case, n int, fill []byte) (*Violation, map[string]int) {
	img := append([]byte{}, r.imageAt(len(r.writes), 0)...)
	exp := r.expectedAt(len(r.writes), 0)
	if len(fill) == 0 {
		fill = []byte{0}
	}
	for i := 0; i < n; i++ {
		img = append(img, fill[i%len(fill)])
	}
	c := Case{Cfg: base.Cfg}
	c.Cfg.Profile = "C03-crash"
	v, ev := Run(c, RunOpts{Prop: "C03", InitImage: img, InitDurable: exp, NoLog: true})
	if v != nil {
		v.Sig = "tail:" + v.Sig
		v.Msg = fmt.Sprintf("complete file (%d bytes, %d flushes) followed by %d junk bytes that contain no root record: %s", len(img)-n, len(exp), n, v.Msg)
	}
	return v, ev
}

// framedNearRecord builds junk that is framed like a root record lying exactly
// where it is put (doubled begin and end markers, trailer offset == its own
// offset, both length fields == its size) but is not a complete, self-consistent
// root record because exactly one thing is wrong inside: the version, the
// leading length field, the JSON body (not JSON / JSON followed by padding /
// not an object / an object with a malformed location), one marker byte.
func framedNearRecord(pick int, at int) []byte {
	bodies := [][]byte{
		[]byte("{}"), []byte("xx{}"), append([]byte("{}"), make([]byte, 30)...), []byte("[]"),
		[]byte(`{"a":{"o":"x","l":1}}`), []byte(`{"a":{"o":0,"l":0}} `+"\x00"), []byte("{}"), []byte("{}"),
	}
	variant := pick % 8
	body := bodies[variant]
	total := 12 + 4 + 4 + len(body) + 8 + 4 + 12
	b := make([]byte, 0, total)
	b = append(b, "0g1t2r0g1t2r"...)
	ver, l0 := uint32(4), uint32(total)
	switch variant {
	case 0:
		ver = 3 + uint32(pick/8%2)*2 // 3 or 5
	case 6:
		l0 = uint32(total) + 1 - uint32(pick/8%2)*2 // total +/- 1
	}
	var u32 [4]byte
	binary.BigEndian.PutUint32(u32[:], ver)
	b = append(b, u32[:]...)
	binary.BigEndian.PutUint32(u32[:], l0)
	b = append(b, u32[:]...)
	b = append(b, body...)
	var u64 [8]byte
	binary.BigEndian.PutUint64(u64[:], uint64(at))
	b = append(b, u64[:]...)
	binary.BigEndian.PutUint32(u32[:], uint32(total))
	b = append(b, u32[:]...)
	b = append(b, "3e4a5p3e4a5p"...)
	if variant == 7 {
		b[3+pick/8%6] ^= 0x20 // one byte of the begin markers damaged
	}
	return b
}

// RunCrashCase replays one saved crash case: Cfg.Extra = [i, j], the
// continuation is Cfg.Workers[0].
func RunCrashCase(c Case) *Violation {
	hist := c
	hist.Cfg.Extra = nil
	hist.Cfg.Workers = nil
	v, rec, _ := recordRun(hist)
	if v != nil {
		v.Sig = "recording:" + v.Sig
		return v
	}
	if len(c.Cfg.Extra) < 2 {
		return nil
	}
	if c.Cfg.Note == "tail" {
		v, _ = rec.checkTail(hist, c.Cfg.Extra[1], c.Cfg.Junk)
		return v
	}
	i, j := c.Cfg.Extra[0], c.Cfg.Extra[1]
	if i > len(rec.writes) || (i < len(rec.writes) && j > len(rec.writes[i].Data)) {
		return &Violation{Prop: "C03", Sig: "harness", Msg: "crash point outside the write log (the code under test changed its writes)"}
	}
	var cont []Op
	if len(c.Cfg.Workers) > 0 {
		cont = c.Cfg.Workers[0]
	}
	hist.Cfg.Junk = nil
	v, _ = rec.checkImage(hist, i, j, cont, c.Cfg.Junk)
	return v
}

func init() {
	replayers["C03"] = RunCrashCase
}
