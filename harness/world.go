package verifharness

import (
	"bytes"
	"encoding/json"
	"fmt"
	"math/rand"
	"os"
	"runtime"
	"runtime/debug"
	"sort"
	"strings"
	"time"

	g "github.com/cbehopkins/gkvlite"
)

// Violation describes a property violation found by the interpreter.
type Violation struct {
	Prop  string `json:"prop"`
	Msg   string `json:"msg"`
	OpIdx int    `json:"op"`
	Sig   string `json:"sig"` // short, stable class of the failure (known-findings matching)
}

func (v *Violation) Error() string {
	return fmt.Sprintf("[%s] op#%d %s: %s", v.Prop, v.OpIdx, v.Sig, v.Msg)
}

// RunOpts selects which oracles are active for a run.
type RunOpts struct {
	Prop      string // property id the run decides (attribution of violations)
	Probe     bool   // re-open a copy of the file after every step and compare with the last flush
	Monitor   bool   // C09: check every logged write/truncate
	FreeCheck bool   // C10: no live node on a free list
	TreeCheck bool   // C13: tree invariants
	Decode    bool   // C14: independent decoder after every flush
	RefCount  bool   // C15: item reference counting
	Lazy      bool   // C19: value bytes never read by key-only ops
	RefsQuiescent bool // C18: no version stays pinned once visits/iterators/snapshots are gone
	Plan      *FaultPlan
	NoFinal   bool // skip the end-of-case comparison (engines that do their own)
	KeepData  bool // log the payload of every write (C03)
	NoLog     bool // do not keep the file call log (long scans)
	RevertPoints bool // every successful Flush must append a root record (it is a FlushRevert point): C02, C07, C08, C09, C14
	RealFile  bool // mirror every file call on a real os.File and compare (harness self-check)
	// InitImage/InitDurable start the case on an existing file image whose
	// durable states are known (C03: a crash image and what must be recoverable).
	InitImage   []byte
	InitDurable []Durable
	After       func(w *World) // called at the very end of a successful run
	Hook      func(w *World, phase string, i int, op *Op) // engine specific observer
}

// Handle is one open Store (the original or a snapshot) with its model.
type Handle struct {
	st     *g.Store
	m      *MState
	snap   bool
	closed bool
	rev    int // snapshots: number of durable states at or below its current root
}

// Durable is one successfully flushed (and not reverted) state.
type Durable struct {
	ms      *MState
	fileLen int64
}

// World is the interpreter state for one case.
type World struct {
	c       Case
	opt     RunOpts
	file    *MemFile
	orig    *Handle
	snaps   []*Handle
	durable []Durable
	ev      map[string]int
	opIdx   int
	cmpLoad map[string]int
	rc      *refCounter
	baseG   int
	cbs     g.StoreCallbacks
	others  []*otherStore
	logPos  int   // C09 monitor: next unread log entry
	junkEnd int64 // C07: file may legitimately hold bytes past the last root after a failed flush
	lazy    *lazyState
	inVisit int
	lastKeys map[string][]byte // per collection: a recently used key (for nested ops)
	dstFiles []*MemFile

	tracks     map[string]*collTrack
	released   int             // handles released so far (C10 labels)
	lowered    map[string]bool // collections that saw a lowering overwrite (C13)
	churnStore *otherStore

	lenient  bool      // call(): a swallowed fault is recorded in absorbed instead of failing (CopyTo)
	absorbed bool
	deep     bool      // a full (cache-disturbing) comparison is in progress
	visiting []*Handle // handles with a visit in flight (nested ops must not close them)

	monPrevD         int64
	monPrefix        []byte
	monDurableBefore []int64
}

type abortRun struct{ v *Violation }

func (w *World) failf(sig string, format string, a ...interface{}) {
	panic(abortRun{&Violation{Prop: w.opt.Prop, Msg: fmt.Sprintf(format, a...), OpIdx: w.opIdx, Sig: sig}})
}

// Run interprets the case against gkvlite and the model.
func Run(c Case, opt RunOpts) (v *Violation, ev map[string]int) {
	w := &World{c: c, opt: opt, ev: map[string]int{}, cmpLoad: map[string]int{}, lastKeys: map[string][]byte{}, lowered: map[string]bool{}}
	defer func() {
		ev = w.ev
		if r := recover(); r != nil {
			if a, ok := r.(abortRun); ok {
				v = a.v
				return
			}
			if d, ok := r.(mirrorDivergence); ok {
				v = &Violation{Prop: opt.Prop, OpIdx: w.opIdx, Sig: "harness-memfile-diverges", Msg: d.msg}
				return
			}
			v = &Violation{Prop: opt.Prop, OpIdx: w.opIdx, Sig: "panic",
				Msg: fmt.Sprintf("panic: %v\n%s", r, trimStack(debug.Stack()))}
		}
	}()
	w.run()
	return nil, w.ev
}

func trimStack(b []byte) string {
	lines := strings.Split(string(b), "\n")
	var keep []string
	for i := 0; i < len(lines); i++ {
		l := lines[i]
		if strings.Contains(l, "gkvlite") && !strings.Contains(l, "verifharness") {
			keep = append(keep, strings.TrimSpace(l))
			if i+1 < len(lines) {
				keep = append(keep, "   "+strings.TrimSpace(lines[i+1]))
			}
		}
		if len(keep) > 16 {
			break
		}
	}
	return strings.Join(keep, "\n")
}

func (w *World) run() {
	rand.Seed(w.c.Cfg.RandSeed)
	curNameSet = w.c.Cfg.NameSet
	curValExtra = 0
	cmpClosures = w.c.Cfg.RandSeed%3 != 0
	curValStored = nil
	if w.c.Cfg.Framed {
		curValExtra = 4
		curValStored = func(v []byte) []byte { return append(append([]byte{}, v...), 0xF0, 0x0D, 0xCA, 0xFE) }
	}
	if w.c.Cfg.Masked {
		curValStored = func(v []byte) []byte {
			o := make([]byte, len(v))
			for i, x := range v {
				o[i] = x ^ 0x5A
			}
			return o
		}
	}
	g.VerifResetFreeLists()
	w.baseG = runtime.NumGoroutine()
	w.setupCallbacks()
	if !w.c.Cfg.Mem {
		w.file = NewMemFile("main")
		w.file.Plan = w.opt.Plan
		w.file.KeepData = w.opt.KeepData
		if w.opt.NoLog {
			w.file.KeepLog = false
		}
		if w.opt.RealFile && w.opt.InitImage == nil {
			f, err := os.CreateTemp("", "verif-mirror-*.gkv")
			if err != nil {
				w.failf("harness", "cannot create the mirror file: %v", err)
			}
			w.file.Mirror = f
			defer func() {
				f.Close()
				os.Remove(f.Name())
			}()
		}
		if w.opt.Lazy {
			w.lazy = newLazyState()
		}
		if w.opt.InitImage != nil {
			w.file.B = append([]byte(nil), w.opt.InitImage...)
			for _, d := range w.opt.InitDurable {
				w.durable = append(w.durable, Durable{ms: d.ms.Clone(), fileLen: d.fileLen})
			}
			if len(w.durable) == 0 && len(w.file.B) > 0 {
				w.junkEnd = int64(len(w.file.B)) // no completed flush: the "no roots" error is acceptable
			}
		}
	}
	w.opIdx = -1
	w.setAPI(-1, false)
	w.openOrig(true)
	for i := 0; i < w.c.Cfg.Stores; i++ {
		w.others = append(w.others, newOtherStore(w, i))
	}
	for i := range w.c.Ops {
		w.opIdx = i
		w.setAPI(i, false)
		w.preStep()
		op := &w.c.Ops[i]
		w.step(op)
		w.refStep()
		w.lazyCheck(op)
		if w.opt.Monitor {
			w.monitorCheck()
		}
		w.setAPI(i, true)
		if w.opt.Hook != nil {
			w.opt.Hook(w, "after", i, op)
		}
		if k := w.c.Cfg.CheckEvery; k > 0 && (i+1)%k == 0 {
			w.checkAll()
		} else {
			w.cheapChecks()
		}
	}
	w.opIdx = len(w.c.Ops)
	w.setAPI(w.opIdx, true)
	w.preStep()
	if !w.opt.NoFinal {
		w.checkAll()
		w.finish()
	}
	if w.opt.After != nil {
		w.opt.After(w)
	}
}

// setAPI tags subsequent file calls with the op index (even: the op itself,
// odd: the harness's own read-only comparisons).
func (w *World) setAPI(i int, check bool) {
	if w.file == nil {
		return
	}
	w.file.CurAPI = 2 * i
	if check {
		w.file.CurAPI++
	}
}

// openOrig opens (or re-opens) the original store on the case's file.
func (w *World) openOrig(first bool) {
	var st *g.Store
	var ms *MState
	if len(w.durable) > 0 {
		ms = w.durable[len(w.durable)-1].ms.Clone()
	} else {
		ms = NewMState()
	}
	w.setCmpLoad(ms)
	for {
		var err error
		ok := w.call("NewStore", true, func() error {
			if w.file == nil {
				if w.c.Cfg.RandSeed%2 == 0 {
					// a typed nil file pointer is a memory-only store too (NewStoreEx tests for it)
					var typedNil *MemFile
					st, err = g.NewStoreEx(typedNil, w.cbs)
				} else {
					st, err = g.NewStoreEx(nil, w.cbs)
				}
			} else {
				st, err = g.NewStoreEx(w.file, w.cbs)
			}
			if err != nil && w.file != nil && len(w.durable) == 0 && len(w.file.B) > 0 &&
				w.junkEnd > 0 && strings.Contains(err.Error(), "couldn't find roots") {
				// Bytes of a failed first Flush but no root record: the documented
				// "no roots" error.  The application starts over with an empty file.
				w.ev["reopen_no_roots"]++
				w.file.B = w.file.B[:0]
				if w.file.Mirror != nil {
					w.file.Mirror.Truncate(0)
				}
				w.junkEnd = 0
				st, err = g.NewStoreEx(w.file, w.cbs)
			}
			return err
		})
		if ok {
			break
		}
		// failed by the injected fault: nothing to compare yet; retry.
		if st != nil {
			w.failf("open-error-with-store", "NewStore returned both a store and an error")
		}
		w.ev["retry_open"]++
	}
	if st == nil {
		w.failf("open-nil", "NewStore returned nil store without error")
	}
	w.installCmps(st, ms)
	w.orig = &Handle{st: st, m: ms}
}

// cmpViaSet reports whether this case re-supplies comparators the other
// documented way: SetCollection(name, compare) on the freshly loaded store
// instead of the KeyCompareForCollection callback.
func (w *World) cmpViaSet() bool {
	return w.c.Cfg.CmpViaSet && w.c.Cfg.Callbacks&CbKeyCompare == 0
}

// installCmps re-installs the non-default comparators on a store that was just
// loaded from the file (NewStore, FlushRevert) when the case does not use the
// KeyCompareForCollection callback.
func (w *World) installCmps(st *g.Store, ms *MState) {
	if !w.cmpViaSet() {
		return
	}
	for _, name := range ms.Names() {
		if mc := ms.Colls[name]; mc != nil && mc.Cmp != CmpBytes {
			if st.GetCollection(name) == nil {
				continue // the contents oracle reports the missing collection
			}
			st.SetCollection(name, AppCmp(mc.Cmp))
			w.ev["cmp_installed_by_setcollection"]++
		}
	}
}

// openCopy opens a private copy of a file image the way the case opens stores
// (callbacks minus reference counting; comparators of ms re-supplied).
func (w *World) openCopy(f *MemFile, ms *MState) (*g.Store, error) {
	saved := map[string]int{}
	for k, v := range w.cmpLoad {
		saved[k] = v
	}
	w.setCmpLoad(ms)
	defer func() {
		for k := range w.cmpLoad {
			delete(w.cmpLoad, k)
		}
		for k, v := range saved {
			w.cmpLoad[k] = v
		}
	}()
	cbs := w.cbs
	cbs.ItemAlloc, cbs.ItemAddRef, cbs.ItemDecRef = nil, nil, nil
	if (w.c.Cfg.Framed || w.c.Cfg.Masked) && curValStored == nil {
		// a file in plain value form (a CopyTo destination: CopyTo creates it without
		// the source's callbacks) is opened without the representation-changing callbacks
		cbs.ItemValLength, cbs.ItemValWrite, cbs.ItemValRead = nil, nil, nil
	}
	st, err := g.NewStoreEx(f.CloneQuiet(), cbs)
	if err == nil && st != nil {
		w.installCmps(st, ms)
	}
	return st, err
}

func (w *World) setCmpLoad(ms *MState) {
	for k := range w.cmpLoad {
		delete(w.cmpLoad, k)
	}
	for n, c := range ms.Colls {
		w.cmpLoad[n] = c.Cmp
	}
}

// call runs one gkvlite API call, classifying its error against the fault
// plan.  ok=false (without a violation) means the call failed because the
// injected fault fired during it.
func (w *World) call(name string, hasErr bool, f func() error) (ok bool) {
	p := w.opt.Plan
	fired0 := p != nil && p.Fired
	if p != nil {
		p.Active = true
	}
	err := func() error {
		defer func() {
			if p != nil {
				p.Active = false
			}
		}()
		return f()
	}()
	if p != nil && p.Fired && !fired0 {
		w.ev["fault_fired"]++
		w.ev["fault_in_"+name]++
		p.FiredOp = w.opIdx
		if hasErr && err == nil && w.lenient {
			w.absorbed = true // the caller verifies that the result is nevertheless complete and correct
			return true
		}
		if hasErr && err == nil {
			w.failf("error-swallowed:"+name, "injected %s failure (call %d) during %s was swallowed: the call returned a nil error",
				p.FiredKind, p.FailAt, name)
		}
		return false
	}
	if err != nil {
		w.failf("unexpected-error:"+name, "%s returned an error without any file fault: %v", name, err)
	}
	return true
}

// handle returns the store handle an op's S field designates.
func (w *World) handle(s int) *Handle {
	if s <= 0 || len(w.snaps) == 0 {
		return w.orig
	}
	return w.snaps[(s-1)%len(w.snaps)]
}

// coll returns the collection (and its model) for a mutating op on the
// original, creating it if the history has not done so.
func (w *World) collFor(h *Handle, ci int, create bool) (*g.Collection, *MColl) {
	name := collName(ci)
	mc := h.m.Colls[name]
	if mc == nil {
		if !create || h.snap {
			if c := h.st.GetCollection(name); c != nil {
				w.failf("ghost-collection", "collection %q exists but the model has none", name)
			}
			return nil, nil
		}
		h.st.SetCollection(name, AppCmp(w.c.Cfg.DefCmp))
		mc = &MColl{Cmp: w.c.Cfg.DefCmp, Items: map[string]MItem{}}
		h.m.Colls[name] = mc
		w.ev["autocreate"]++
	}
	c := h.st.GetCollection(name)
	if c == nil {
		w.failf("missing-collection", "GetCollection(%q) returned nil but the model has the collection", name)
	}
	return c, mc
}

func (w *World) release(h *Handle, c *g.Collection, i *g.Item) {
	if i != nil {
		h.st.ItemDecRef(c, i)
	}
}

func (w *World) newItem(key, val []byte, prio int32) *g.Item {
	it := &g.Item{Key: key, Val: val, Priority: prio}
	if w.rc != nil {
		w.rc.cnt[it] = 1 // the application's own reference
	}
	return it
}

func (w *World) dropAppRef(h *Handle, c *g.Collection, it *g.Item) {
	if w.rc != nil {
		h.st.ItemDecRef(c, it)
	}
}

// step executes one op (re-executing it once if an injected fault made it fail).
func (w *World) step(op *Op) {
	for attempt := 0; ; attempt++ {
		done := w.exec(op)
		if done {
			return
		}
		// The op failed because of the injected fault.
		if attempt > 0 {
			w.failf("retry-failed", "%s failed again although the file works now", op.String())
		}
		w.ev["op_failed_by_fault"]++
		w.ev["faulted:"+op.K]++
		w.afterFault(op)
		if len(w.c.Cfg.Extra) > 0 && w.c.Cfg.Extra[0] == 1 && op.K != OpReopen {
			// variant: the application gives up on the failed call; everything
			// later must behave as if it had never been made.
			w.ev["abandoned"]++
			return
		}
		w.ev["retried"]++
	}
}

// afterFault checks that the failed call changed nothing.
func (w *World) afterFault(op *Op) {
	// the comparisons are the harness's own reads, not the op's (C09 monitor, C19 read log)
	w.setAPI(w.opIdx, true)
	defer w.setAPI(w.opIdx, false)
	switch op.K {
	case OpRevert:
		// The store is only required to be sane again after re-opening the file.
		w.orig.st.Close()
		w.openOrig(false)
		w.checkAll()
		w.probe()
		return
	}
	w.checkAll()
	w.probe()
}

func (w *World) exec(op *Op) (done bool) {
	h := w.orig
	switch op.K {
	case OpSet, OpSetR:
		if h.closed {
			return true
		}
		c, mc := w.collFor(h, op.C, true)
		key := append([]byte(nil), op.Key...)
		val := append([]byte{}, op.Val...)
		if op.Flag > 0 {
			val = w.hostileValue(op.Flag, val)
		}
		var it *g.Item
		prio := op.Prio
		ok := w.call("SetItem", true, func() error {
			if op.K == OpSetR && op.N == 1 {
				return c.SetAny(key, val)
			}
			if op.K == OpSetR {
				return c.Set(key, val)
			}
			it = w.newItem(key, val, prio)
			err := c.SetItem(it)
			w.dropAppRef(h, c, it)
			return err
		})
		if !ok {
			return false
		}
		old, had := mc.Items[string(key)]
		if op.K == OpSetR {
			// the library drew the priority: learn it.
			gi, err := c.GetItem(key, false)
			if err != nil || gi == nil {
				w.failf("set-lost", "Set(%s) succeeded but GetItem finds nothing (err %v)", qb(key), err)
			}
			prio = gi.Priority
			w.release(h, c, gi)
			if prio < 0 {
				w.failf("set-negative-priority", "Set stored a negative priority %d", prio)
			}
		}
		if had {
			w.ev["overwrite"]++
			if prio < old.Prio {
				w.lowered[collName(op.C)] = true
				w.ev["overwrite_lower"]++
			} else if prio == old.Prio {
				w.ev["overwrite_tied"]++
			} else {
				w.ev["overwrite_higher"]++
			}
		} else {
			w.ev["insert"]++
		}
		if len(key) >= 255 {
			w.ev["bigkey"]++
		}
		if len(val) == 0 {
			w.ev["emptyval"]++
		}
		mc.Items[string(key)] = MItem{Val: val, Prio: prio}
		w.lastKeys[collName(op.C)] = key
		w.ev["mut"]++
		w.noteMut(op.C)
	case OpDel:
		if h.closed {
			return true
		}
		c, mc := w.collFor(h, op.C, true)
		var was bool
		ok := w.call("Delete", true, func() error {
			var err error
			if op.N == 1 {
				was, err = c.DeleteAny(op.Key)
			} else {
				was, err = c.Delete(op.Key)
			}
			return err
		})
		if !ok {
			return false
		}
		_, had := mc.Items[string(op.Key)]
		if was != had {
			w.failf("delete-flag", "Delete(%s) reported wasDeleted=%v, the model says present=%v", qb(op.Key), was, had)
		}
		if had {
			delete(mc.Items, string(op.Key))
			w.ev["delete_present"]++
			w.ev["mut"]++
			w.noteMut(op.C)
		} else {
			w.ev["delete_absent"]++
		}
	case OpBadSet:
		if h.closed {
			return true
		}
		c, _ := w.collFor(h, op.C, true)
		if k := op.Flag % 8; k >= 5 {
			// the same rejections through Set(key, val) (priority drawn by the library)
			var err error
			switch k {
			case 5:
				err = c.Set([]byte{}, []byte("v"))
			case 6:
				err = c.Set([]byte("k"), nil)
			default:
				err = c.Set(bytes.Repeat([]byte{'y'}, 65536), []byte("v"))
			}
			if err == nil {
				w.failf("invalid-accepted", "Set accepted an invalid key/value (kind %d)", k)
			}
			w.ev["badset"]++
			break
		}
		it := w.newItem([]byte("k"), []byte("v"), 1)
		switch op.Flag % 8 {
		case 0:
			it.Key = []byte{}
		case 1:
			it.Key = nil
		case 2:
			it.Key = bytes.Repeat([]byte{'x'}, 65536)
		case 3:
			it.Val = nil
		case 4:
			it.Priority = -1 - op.Prio
			if it.Priority >= 0 {
				it.Priority = -1
			}
		}
		err := c.SetItem(it)
		w.dropAppRef(h, c, it)
		if err == nil {
			w.failf("invalid-accepted", "SetItem accepted an invalid item (kind %d)", op.Flag%8)
		}
		w.ev["badset"]++
	case OpGet, OpGetItem, OpExist, OpMin, OpMax, OpTotals, OpNames, OpLen:
		return w.execRead(op)
	case OpVisit:
		return w.execVisit(op)
	case OpBlock, OpRandom:
		return w.execBlock(op)
	case OpIter:
		return w.execIter(op)
	case OpFlush:
		if h.closed {
			return true
		}
		return w.execFlush()
	case OpEvict:
		if h.closed {
			return true
		}
		n := op.N
		if n <= 0 {
			n = 1
		}
		var targets []*g.Collection
		if op.Flag == 1 { // burst over every collection
			for _, name := range h.m.Names() {
				if c := h.st.GetCollection(name); c != nil {
					targets = append(targets, c)
				}
			}
		} else if c, _ := w.collFor(h, op.C, false); c != nil {
			targets = append(targets, c)
		}
		total := uint64(0)
		ok := true
		for _, c := range targets {
			c := c
			for i := 0; i < n && ok; i++ {
				ok = w.call("EvictSomeItems", false, func() error {
					total += c.EvictSomeItems()
					return nil
				})
			}
		}
		if total > 0 {
			w.ev["evicted_items"] += int(total)
			w.ev["evict_effective"]++
			if op.Flag == 1 {
				w.noteCacheAll()
			} else {
				w.noteCache(op.C)
			}
		}
		if !ok {
			return false
		}
	case OpReopen:
		if w.file == nil || h.closed {
			return true
		}
		if len(w.snaps) > 0 {
			return true // re-opening under open snapshots is not part of any profile
		}
		pending := !w.liveEqualsDurable()
		if op.Flag == 0 {
			h.st.Close()
			h.closed = true
			w.refCheckClosed()
		}
		w.openOrig(false)
		w.ev["reopen"]++
		if pending {
			w.ev["reopen_with_pending"]++
		}
		w.noteCacheAll()
	case OpRevert:
		if h.closed {
			return true
		}
		return w.execRevert()
	case OpSetColl:
		if h.closed {
			return true
		}
		name := collName(op.C)
		cmp := op.Flag % NumCmp
		mc := h.m.Colls[name]
		if mc != nil && mc.Cmp != cmp && len(mc.Items) > 1 {
			cmp = mc.Cmp // a different order over existing items is a caller error
		}
		var kc g.KeyCompare = AppCmp(cmp)
		if cmp == CmpBytes && op.N%2 == 1 {
			kc = nil // nil means "the default, bytes.Compare", for new and for existing names
			w.ev["setcoll_nil_compare"]++
		}
		var nc *g.Collection
		// SetCollection has no error result and needs no file access; if it ever touches the
		// file and that call fails, it must at least change nothing (C07, C12)
		if !w.call("SetCollection", false, func() error { nc = h.st.SetCollection(name, kc); return nil }) {
			return false
		}
		if nc == nil {
			w.failf("setcollection-nil", "SetCollection(%q) returned nil", name)
		}
		if mc == nil {
			h.m.Colls[name] = &MColl{Cmp: cmp, Items: map[string]MItem{}}
			w.ev["coll_create"]++
		} else {
			if mc.Cmp != cmp {
				w.ev["coll_cmp_change"]++
			}
			mc.Cmp = cmp
			w.ev["coll_replace"]++
			if len(mc.Items) > 0 {
				w.ev["coll_replace_nonempty"]++
				w.track(op.C).replaced = true
			}
			w.released++
		}
		if g2 := h.st.GetCollection(name); g2 != nc {
			w.failf("setcollection-handle", "GetCollection(%q) does not return the handle SetCollection returned", name)
		}
	case OpRmColl:
		if h.closed {
			return true
		}
		name := collName(op.C)
		h.st.RemoveCollection(name)
		if mc := h.m.Colls[name]; mc != nil {
			delete(h.m.Colls, name)
			w.ev["coll_remove"]++
			w.released++
			if len(mc.Items) > 0 {
				w.ev["coll_remove_nonempty"]++
			}
		} else {
			w.ev["coll_remove_absent"]++
		}
	case OpSnap:
		if len(w.snaps) >= 4 {
			return true
		}
		src := w.handle(op.S)
		if src.closed {
			return true
		}
		if w.rc != nil && os.Getenv("VERIF_NO_EXCLUDE") == "" {
			w.prewarm(src)
		}
		var st *g.Store
		w.call("Snapshot", false, func() error { st = src.st.Snapshot(); return nil })
		if st == nil {
			w.failf("snapshot-nil", "Snapshot returned nil")
		}
		rev := len(w.durable)
		if src.snap {
			rev = src.rev
		}
		w.snaps = append(w.snaps, &Handle{st: st, m: src.m.Clone(), snap: true, rev: rev})
		w.ev["snap"]++
		if src.snap {
			w.ev["snap_of_snap"]++
		}
		if !src.snap && !w.liveEqualsDurable() {
			w.ev["snap_with_unflushed"]++
		}
	case OpSnapClose:
		if len(w.snaps) == 0 {
			return true
		}
		i := 0
		if op.S > 0 {
			i = (op.S - 1) % len(w.snaps)
		}
		sh := w.snaps[i]
		if w.isVisiting(sh) && w.file != nil {
			w.ev["skipped_close_of_visited_handle"]++
			return true // closing a file-backed store from inside its own visit is a caller error (Close drops the file the visit reads from)
		}
		if w.isVisiting(sh) {
			// memory-only: the visit holds its own pin and needs no file, so releasing the
			// snapshot under it is one more "order of releasing readers and snapshots"
			w.ev["snapclose_inside_own_visit"]++
		}
		sh.st.Close()
		sh.closed = true
		w.snaps = append(w.snaps[:i:i], w.snaps[i+1:]...)
		w.ev["snapclose"]++
		if len(w.snaps) > 0 {
			w.ev["snapclose_with_others_open"]++
		}
		w.ev["released"]++
		w.released++
	case OpSnapRev:
		if len(w.snaps) == 0 {
			return true
		}
		return w.execSnapRevert(w.handle(max(op.S, 1)))
	case OpSnapBad:
		if len(w.snaps) == 0 {
			return true
		}
		w.execSnapBad(w.handle(max(op.S, 1)), op)
	case OpCopyTo:
		return w.execCopyTo(op)
	case OpClose:
		if h.closed || w.isVisiting(h) {
			return true
		}
		h.st.Close()
		h.closed = true
		w.ev["close"]++
		w.ev["released"]++
		w.released++
	case OpWrite:
		if h.closed || w.file == nil {
			return true
		}
		c, _ := w.collFor(h, op.C, false)
		if c == nil {
			return true
		}
		if !w.call("Write", true, func() error { return c.Write() }) {
			if w.file != nil && len(w.file.B) > 0 {
				w.junkEnd = int64(len(w.file.B)) // a failed Write leaves bytes that belong to no flush, like a successful one
			}
			return false
		}
		w.ev["coll_write"]++
		if w.file != nil {
			w.junkEnd = int64(len(w.file.B))
		}
	case OpChurn:
		w.churn(op.N)
	case OpBulk:
		if h.closed {
			return true
		}
		c, mc := w.collFor(h, op.C, true)
		x := uint32(op.Flag)*2654435761 + 12345
		for i := 0; i < op.N; i++ {
			x = x*1664525 + 1013904223
			key := []byte(fmt.Sprintf("bk%05d", (i*7919+op.Flag)%100003))
			val := bytes.Repeat([]byte{byte('a' + i%26)}, int(x>>8)%9)
			prio := int32(x>>1) & 0x7fffffff
			if op.At == 1 {
				// chain mode: tied priorities, keys in ascending order (a degenerate, list-shaped treap)
				key = []byte(fmt.Sprintf("bk%05d", i))
				prio = 7
			}
			it := w.newItem(key, val, prio)
			err := c.SetItem(it)
			w.dropAppRef(h, c, it)
			if err != nil {
				w.failf("unexpected-error:SetItem", "bulk load: SetItem(%s) failed: %v", qb(key), err)
			}
			if old, had := mc.Items[string(key)]; had && prio < old.Prio {
				w.lowered[collName(op.C)] = true
			}
			mc.Items[string(key)] = MItem{Val: val, Prio: prio}
		}
		w.ev["bulk_load"]++
		w.ev["mut"]++
		w.noteMut(op.C)
	case OpMisc:
		return w.execMisc(op)
	default:
		w.failf("harness", "unknown op kind %q", op.K)
	}
	return true
}

// prewarm loads every node of every collection of a handle.  It excludes, by
// construction, the trigger of known finding K1 (DESIGN.md 4): a tree node
// that is loaded from the file through a version that has already been
// superseded but is still pinned (snapshot) is private to that version and
// never released, so the item it caches keeps its reference forever.
func (w *World) prewarm(h *Handle) {
	for _, name := range h.m.Names() {
		c := h.st.GetCollection(name)
		if c == nil {
			continue
		}
		before := 0
		c.VerifWalk(1<<20, func(g.VerifNode) { before++ })
		if _, err := scanAll(h.st, c, false, nil); err != nil {
			w.failf("scan-error", "pre-warm scan failed: %v", err)
		}
		after := 0
		c.VerifWalk(1<<20, func(g.VerifNode) { after++ })
		if after > before {
			w.ev["excluded_known_K1"]++
		}
	}
}

func (w *World) isVisiting(h *Handle) bool {
	for _, v := range w.visiting {
		if v == h {
			return true
		}
	}
	return false
}

func max(a, b int) int {
	if a > b {
		return a
	}
	return b
}

// liveEqualsDurable reports whether the original has no unflushed changes.
func (w *World) liveEqualsDurable() bool {
	if len(w.durable) == 0 {
		return len(w.orig.m.Colls) == 0
	}
	return w.orig.m.Equal(w.durable[len(w.durable)-1].ms)
}

func (w *World) execFlush() bool {
	h := w.orig
	if w.file == nil {
		err := h.st.Flush()
		if err == nil {
			w.failf("mem-flush-accepted", "Flush on a memory-only store returned nil")
		}
		return true
	}
	pre := h.st.VerifSize()
	changed := !w.liveEqualsDurable()
	ok := w.call("Flush", true, func() error { return h.st.Flush() })
	if !ok {
		w.junkEnd = int64(len(w.file.B))
		return false
	}
	// The root record ends at the store's append position; the file itself may be
	// longer when leftovers of a failed flush lie beyond it.
	end := h.st.VerifSize()
	if end < pre || end > int64(len(w.file.B)) || (end == pre && (w.opt.RevertPoints || changed)) {
		// (a Flush that appends nothing is tolerated only where no property makes every
		// Flush a revert point and only if nothing changed since the last one)
		w.failf("flush-no-root", "Flush returned nil but the append position went %d -> %d (file has %d bytes)", pre, end, len(w.file.B))
	}
	w.durable = append(w.durable, Durable{ms: h.m.Clone(), fileLen: end})
	w.ev["flush"]++
	if changed {
		w.ev["flush_changed"]++
	}
	if end < int64(len(w.file.B)) {
		w.ev["flush_below_leftovers"]++
		w.junkEnd = int64(len(w.file.B))
	} else {
		w.junkEnd = 0
	}
	if w.opt.Decode {
		w.decodeCheck()
	}
	if w.opt.TreeCheck {
		w.persistedTreeCheck()
	}
	if w.lazy != nil {
		w.lazy.noteFlush(w)
	}
	w.noteFlushed()
	return true
}

func (w *World) execRevert() bool {
	h := w.orig
	if w.file == nil {
		before := h.m
		err := h.st.FlushRevert()
		if err == nil {
			w.failf("mem-revert-accepted", "FlushRevert on a memory-only store returned nil")
		}
		_ = before
		w.ev["revert_mem"]++
		return true
	}
	if len(w.snaps) > 0 {
		return true // documented to invalidate snapshots: not generated with open snapshots
	}
	var target *MState
	if len(w.durable) >= 2 {
		target = w.durable[len(w.durable)-2].ms
	} else {
		target = NewMState()
	}
	w.setCmpLoad(target)
	ok := w.call("FlushRevert", true, func() error { return h.st.FlushRevert() })
	if !ok {
		return false
	}
	pending := !w.liveEqualsDurable()
	if len(w.durable) > 0 {
		w.durable = w.durable[:len(w.durable)-1]
	}
	w.installCmps(h.st, target)
	h.m = target.Clone()
	want := int64(0)
	if len(w.durable) > 0 {
		want = w.durable[len(w.durable)-1].fileLen
	}
	if int64(len(w.file.B)) != want {
		w.failf("revert-file-length", "after FlushRevert the file is %d bytes long, the previous flush ended at %d", len(w.file.B), want)
	}
	w.junkEnd = 0
	w.ev["revert"]++
	if len(w.durable) == 0 {
		w.ev["revert_to_empty"]++
	}
	if pending {
		w.ev["revert_with_pending"]++
	}
	w.noteCacheAll()
	return true
}

func (w *World) execSnapRevert(sh *Handle) bool {
	if w.file == nil {
		err := sh.st.FlushRevert()
		if err == nil {
			w.failf("mem-revert-accepted", "FlushRevert on a memory-only snapshot returned nil")
		}
		return true
	}
	var target *MState
	if sh.rev >= 2 {
		target = w.durable[sh.rev-2].ms
	} else {
		target = NewMState()
	}
	w.setCmpLoad(target)
	img := w.file.Image()
	logLen := len(w.file.Log)
	ok := w.call("SnapshotFlushRevert", true, func() error { return sh.st.FlushRevert() })
	if !ok {
		return false
	}
	if sh.rev > 0 {
		sh.rev--
	}
	// without the KeyCompareForCollection callback the application re-supplies the
	// comparators of the reverted snapshot the same way as after any other load
	w.installCmps(sh.st, target)
	sh.m = target.Clone()
	if !bytes.Equal(img, w.file.B) {
		w.failf("snapshot-revert-wrote", "FlushRevert on a snapshot changed the file")
	}
	for _, r := range w.file.Log[logLen:] {
		if r.Kind == IOWrite || r.Kind == IOTrunc {
			w.failf("snapshot-revert-wrote", "FlushRevert on a snapshot issued %s", r.Kind)
		}
	}
	w.ev["snaprevert"]++
	w.ev["released"]++
	w.released++
	return true
}

func (w *World) execSnapBad(sh *Handle, op *Op) {
	name := collName(op.C)
	c := sh.st.GetCollection(name)
	w.ev["snapbad"]++
	switch op.Flag % 5 {
	case 2:
		if err := sh.st.Flush(); err == nil {
			w.failf("snapshot-accepted-flush", "Flush on a snapshot returned nil")
		}
		return
	}
	if c == nil {
		return
	}
	switch op.Flag % 5 {
	case 0:
		it := w.newItem([]byte("zz"), []byte("v"), 3)
		err := c.SetItem(it)
		w.dropAppRef(sh, c, it)
		if err == nil {
			w.failf("snapshot-accepted-set", "SetItem on a snapshot returned nil")
		}
		if err := c.Set([]byte("zz"), []byte("v")); err == nil {
			w.failf("snapshot-accepted-set", "Set on a snapshot returned nil")
		}
	case 1:
		key := op.Key
		if mc := sh.m.Colls[name]; mc != nil && len(mc.Items) > 0 {
			key = mc.Keys()[0]
		}
		if _, err := c.Delete(key); err == nil {
			w.failf("snapshot-accepted-delete", "Delete on a snapshot returned nil error")
		}
	case 3:
		if err := c.Write(); err == nil && !w.opt.Monitor {
			// (under the C09 monitor the refusal itself is not the point: whatever the
			// call writes is attributed to this op and flagged by the call-log check)
			w.failf("snapshot-accepted-write", "Collection.Write on a snapshot returned nil")
		}
	case 4:
		if n := c.EvictSomeItems(); n != 0 {
			w.failf("snapshot-evicted", "EvictSomeItems on a snapshot evicted %d items", n)
		}
	}
}

// execMisc calls the package's remaining read-only entry points (C09: none of
// them may write; the ones that return data are compared with the model).
func (w *World) execMisc(op *Op) bool {
	h := w.handle(op.S)
	if h.closed {
		return true
	}
	name := collName(op.C)
	c := h.st.GetCollection(name)
	mc := h.m.Colls[name]
	w.ev["misc"]++
	switch op.Flag % 6 {
	case 0:
		out := map[string]uint64{}
		h.st.Stats(out)
	case 1:
		if c != nil {
			_ = c.AllocStats()
		}
	case 2:
		if c != nil && c.Name() != name && !h.snap {
			w.failf("collection-name", "Collection.Name() = %q for the collection registered as %q", c.Name(), name)
		}
	case 3:
		if c != nil {
			if _, err := json.Marshal(c); err != nil {
				w.failf("unexpected-error:MarshalJSON", "json.Marshal(collection) failed: %v", err)
			}
		}
	case 4:
		if c != nil && mc != nil && w.rc == nil && validUTF8Key(op.Key) {
			val, err := c.GetAny(string(op.Key))
			if err != nil {
				w.failf("unexpected-error:GetAny", "%v", err)
			}
			mi, present := mc.Items[string(op.Key)]
			if present != (val != nil) || (present && !bytes.Equal(val, mi.Val)) {
				w.failf("get-value", "GetAny(%s) = %s, model %s (present %v)", qb(op.Key), qb(val), qb(mi.Val), present)
			}
		}
	case 5:
		if c != nil && mc != nil {
			_, present := mc.Items[string(op.Key)]
			if ex := c.ExistAny(op.Key); ex != present {
				w.failf("exist", "ExistAny(%s) = %v, model %v", qb(op.Key), ex, present)
			}
		}
	}
	return true
}

func validUTF8Key(k []byte) bool { return true }

// ---------------------------------------------------------------------------
// reads

func (w *World) execRead(op *Op) bool {
	h := w.handle(op.S)
	if h.closed {
		return true
	}
	if op.K == OpNames {
		got := h.st.GetCollectionNames()
		want := h.m.Names()
		if strings.Join(got, "\x00") != strings.Join(want, "\x00") || len(got) != len(want) {
			w.failf("names", "GetCollectionNames = %q, model %q", got, want)
		}
		scribble(got)
		return true
	}
	c, mc := w.collFor(h, op.C, !h.snap)
	if c == nil {
		return true
	}
	if h.snap {
		w.ev["read_on_snapshot"]++
	}
	key := op.Key
	mi, present := mc.Items[string(key)]
	f := CmpFunc(mc.Cmp)
	switch op.K {
	case OpGet:
		var val []byte
		if !w.call("Get", true, func() (err error) { val, err = c.Get(key); return }) {
			return false
		}
		if present {
			if val == nil || !bytes.Equal(val, mi.Val) {
				w.failf("get-value", "Get(%s) = %s, model %s", qb(key), qb(val), qb(mi.Val))
			}
			w.ev["get_present"]++
		} else if val != nil {
			w.failf("get-ghost", "Get(%s) = %s, model has no such key", qb(key), qb(val))
		}
	case OpGetItem:
		var it *g.Item
		if !w.call("GetItem", true, func() (err error) { it, err = c.GetItem(key, op.WV); return }) {
			return false
		}
		w.checkItem("GetItem", h, c, it, key, mi, present, op.WV)
		w.release(h, c, it)
	case OpExist:
		var ex bool
		if !w.call("Exist", false, func() error { ex = c.Exist(key); return nil }) {
			return false
		}
		if ex != present {
			w.failf("exist", "Exist(%s) = %v, model %v", qb(key), ex, present)
		}
	case OpMin, OpMax:
		var it *g.Item
		name := "MinItem"
		if op.K == OpMax {
			name = "MaxItem"
		}
		if !w.call(name, true, func() (err error) {
			if op.K == OpMin {
				it, err = c.MinItem(op.WV)
			} else {
				it, err = c.MaxItem(op.WV)
			}
			return
		}) {
			return false
		}
		if len(mc.Items) == 0 {
			if it != nil {
				w.failf("minmax-ghost", "%s on an empty collection returned %s", name, qb(it.Key))
			}
			return true
		}
		var want []byte
		for k := range mc.Items {
			kb := []byte(k)
			if want == nil || (op.K == OpMin && f(kb, want) < 0) || (op.K == OpMax && f(kb, want) > 0) {
				want = kb
			}
		}
		w.checkItem(name, h, c, it, want, mc.Items[string(want)], true, op.WV)
		w.release(h, c, it)
	case OpTotals:
		var n, b uint64
		if !w.call("GetTotals", true, func() (err error) { n, b, err = c.GetTotals(); return }) {
			return false
		}
		wn, wb := mc.Totals()
		if n != wn || b != wb {
			w.failf("totals", "GetTotals = (%d items, %d bytes), model (%d, %d)", n, b, wn, wb)
		}
	case OpLen:
		var n int64
		if !w.call("Len", true, func() (err error) { n, err = c.Len(); return }) {
			return false
		}
		if n != int64(len(mc.Items)) {
			w.failf("len", "Len = %d, model %d", n, len(mc.Items))
		}
	}
	return true
}

// checkItem compares an item returned by a lookup with the model.
func (w *World) checkItem(what string, h *Handle, c *g.Collection, it *g.Item, key []byte, mi MItem, present, wv bool) {
	if !present {
		if it != nil {
			w.failf("lookup-ghost", "%s(%s) returned an item (%s) for a key the model does not have", what, qb(key), qb(it.Key))
		}
		return
	}
	if it == nil {
		w.failf("lookup-missing", "%s(%s) returned nil, the model has the key (value %s)", what, qb(key), qb(mi.Val))
	}
	if !bytes.Equal(it.Key, key) {
		w.failf("lookup-key", "%s(%s) returned key %s", what, qb(key), qb(it.Key))
	}
	if it.Priority != mi.Prio {
		w.failf("lookup-priority", "%s(%s) priority %d, model %d", what, qb(key), it.Priority, mi.Prio)
	}
	if wv {
		if it.Val == nil || !bytes.Equal(it.Val, mi.Val) {
			w.failf("lookup-value", "%s(%s) value %s, model %s", what, qb(key), qb(it.Val), qb(mi.Val))
		}
	} else if it.Val != nil && !bytes.Equal(it.Val, mi.Val) {
		w.failf("lookup-value", "%s(%s, withValue=false) carries a wrong value %s, model %s", what, qb(key), qb(it.Val), qb(mi.Val))
	}
	if w.rc != nil {
		w.rc.checkPositive(w, it, what+" result")
	}
}

// ---------------------------------------------------------------------------
// whole-state comparison

// checkAll compares every open handle with its model.
func (w *World) checkAll() {
	w.deep = true
	defer func() { w.deep = false }()
	w.checkLive()
	w.cheapChecks()
}

// cheapChecks are the oracles that do not disturb the store's cache state
// (they read the call log, the hook walk, or a copy of the file); they run
// after every op.
func (w *World) cheapChecks() {
	if w.opt.FreeCheck || w.rc != nil || (w.opt.TreeCheck && w.deep) {
		w.structuralChecks()
	}
	if w.opt.Monitor {
		w.monitorCheck()
	}
	if w.opt.Probe {
		w.probe()
	}
	if w.opt.RefsQuiescent && len(w.snaps) == 0 && w.inVisit == 0 && !w.orig.closed {
		// With no snapshot, visit or iterator alive, the only reference on a
		// collection's current version is the collection's own.
		for _, name := range w.orig.m.Names() {
			if c := w.orig.st.GetCollection(name); c != nil {
				if r := c.VerifRootRefs(); r != 1 {
					w.failf("version-still-pinned", "collection %q: the current version has %d references although no snapshot, visit or iterator is alive (a finished or failed call kept its pin)", name, r)
				}
			}
		}
		w.ev["refs_quiescent_checked"]++
	}
}

// checkLive re-reads every open handle completely.  It loads nodes and
// (re-)caches items, so cases draw how often it runs (Config.CheckEvery).
func (w *World) checkLive() {
	if !w.orig.closed {
		w.checkStore("original", w.orig)
	}
	for i, sh := range w.snaps {
		w.checkStore(fmt.Sprintf("snapshot#%d", i+1), sh)
	}
	for _, o := range w.others {
		o.check(w)
	}
}

// scribble overwrites a slice the store returned to its caller: the result
// belongs to the caller, so nothing the store answers later may depend on it.
func scribble(names []string) {
	for i, j := 0, len(names)-1; i < j; i, j = i+1, j-1 {
		names[i], names[j] = names[j], names[i]
	}
	for i := range names {
		names[i] += "~"
	}
}

func (w *World) checkStore(tag string, h *Handle) {
	got := h.st.GetCollectionNames()
	want := h.m.Names()
	if len(got) != len(want) || strings.Join(got, "\x00") != strings.Join(want, "\x00") {
		w.failf("names", "%s: collection names %q, model %q", tag, got, want)
	}
	scribble(got)
	for _, name := range want {
		c := h.st.GetCollection(name)
		if c == nil {
			w.failf("missing-collection", "%s: GetCollection(%q) is nil", tag, name)
		}
		if msg := compareColl(h.st, c, h.m.Colls[name], w.rc); msg != "" {
			w.failf("contents", "%s collection %q: %s", tag, name, msg)
		}
	}
}

type kvp struct {
	k, v []byte
	p    int32
	d    uint64
}

// scanAll reads a whole collection in ascending order starting from its
// minimum item, the way the library itself does (CopyTo, Len).
func scanAll(st *g.Store, c *g.Collection, wv bool, rc *refCounter) (seq []kvp, err error) {
	minIt, err := c.MinItem(false)
	if err != nil {
		return nil, fmt.Errorf("MinItem: %v", err)
	}
	if minIt == nil {
		return nil, nil
	}
	start := append([]byte(nil), minIt.Key...)
	st.ItemDecRef(c, minIt)
	err = c.VisitItemsAscendEx(start, wv, func(i *g.Item, d uint64) bool {
		if rc != nil && rc.cnt[i] <= 0 {
			rc.bad = append(rc.bad, fmt.Sprintf("item %s passed to a visitor with count %d", qb(i.Key), rc.cnt[i]))
		}
		e := kvp{k: append([]byte(nil), i.Key...), p: i.Priority, d: d}
		if i.Val != nil {
			e.v = append([]byte{}, i.Val...)
		}
		seq = append(seq, e)
		return len(seq) < 1<<20
	})
	return seq, err
}

// compareColl returns "" if the collection's observable contents equal the model.
func compareColl(st *g.Store, c *g.Collection, mc *MColl, rc *refCounter) string {
	n, b, err := c.GetTotals()
	if err != nil {
		return fmt.Sprintf("GetTotals error: %v", err)
	}
	wn, wb := mc.Totals()
	if n != wn || b != wb {
		return fmt.Sprintf("GetTotals = (%d items, %d bytes), model (%d, %d)", n, b, wn, wb)
	}
	seq, err := scanAll(st, c, true, rc)
	if err != nil {
		return fmt.Sprintf("scan error: %v", err)
	}
	keys := mc.Keys()
	if len(seq) != len(keys) {
		return fmt.Sprintf("full scan delivered %d items %s, model has %d %s", len(seq), seqKeys(seq), len(keys), keyList(keys))
	}
	for i, k := range keys {
		e := seq[i]
		mi := mc.Items[string(k)]
		if !bytes.Equal(e.k, k) {
			return fmt.Sprintf("full scan position %d has key %s, model %s (scan %s, model %s)", i, qb(e.k), qb(k), seqKeys(seq), keyList(keys))
		}
		if e.v == nil || !bytes.Equal(e.v, mi.Val) {
			return fmt.Sprintf("key %s has value %s, model %s", qb(k), qb(e.v), qb(mi.Val))
		}
		if e.p != mi.Prio {
			return fmt.Sprintf("key %s has priority %d, model %d", qb(k), e.p, mi.Prio)
		}
	}
	// extremes
	for _, isMin := range []bool{true, false} {
		var it *g.Item
		if isMin {
			it, err = c.MinItem(true)
		} else {
			it, err = c.MaxItem(false)
		}
		if err != nil {
			return fmt.Sprintf("Min/MaxItem error: %v", err)
		}
		if len(keys) == 0 {
			if it != nil {
				return "Min/MaxItem returned an item for an empty collection"
			}
			continue
		}
		want := keys[0]
		if !isMin {
			want = keys[len(keys)-1]
		}
		if it == nil || !bytes.Equal(it.Key, want) {
			return fmt.Sprintf("Min/MaxItem(min=%v) = %v, model %s", isMin, itemKey(it), qb(want))
		}
		st.ItemDecRef(c, it)
	}
	// point lookups: every key, plus neighbours that must be absent
	for i, k := range keys {
		mi := mc.Items[string(k)]
		if i%2 == 0 {
			v, err := getVal(st, c, k)
			if err != nil {
				return fmt.Sprintf("Get(%s) error: %v", qb(k), err)
			}
			if v == nil || !bytes.Equal(v, mi.Val) {
				return fmt.Sprintf("Get(%s) = %s, model %s", qb(k), qb(v), qb(mi.Val))
			}
		} else {
			it, err := c.GetItem(k, false)
			if err != nil {
				return fmt.Sprintf("GetItem(%s) error: %v", qb(k), err)
			}
			if it == nil || !bytes.Equal(it.Key, k) || it.Priority != mi.Prio {
				return fmt.Sprintf("GetItem(%s) = %v, model priority %d", qb(k), itemKey(it), mi.Prio)
			}
			st.ItemDecRef(c, it)
		}
		absent := append(append([]byte(nil), k...), 0x01)
		if _, ok := mc.Items[string(absent)]; !ok {
			it, err := c.GetItem(absent, false)
			if err != nil {
				return fmt.Sprintf("GetItem(%s) error: %v", qb(absent), err)
			}
			if it != nil {
				return fmt.Sprintf("GetItem(%s) found an item, the model has no such key", qb(absent))
			}
		}
	}
	return ""
}

// getVal is Get through GetItem so that the reference can be released.
func getVal(st *g.Store, c *g.Collection, k []byte) ([]byte, error) {
	it, err := c.GetItem(k, true)
	if err != nil || it == nil {
		return nil, err
	}
	v := it.Val
	st.ItemDecRef(c, it)
	return v, nil
}

func itemKey(it *g.Item) string {
	if it == nil {
		return "nil"
	}
	return fmt.Sprintf("{%s p%d}", qb(it.Key), it.Priority)
}

func seqKeys(seq []kvp) string {
	var p []string
	for i, e := range seq {
		if i >= 12 {
			p = append(p, "...")
			break
		}
		p = append(p, qb(e.k))
	}
	return "[" + strings.Join(p, " ") + "]"
}

func keyList(ks [][]byte) string {
	var p []string
	for i, k := range ks {
		if i >= 12 {
			p = append(p, "...")
			break
		}
		p = append(p, qb(k))
	}
	return "[" + strings.Join(p, " ") + "]"
}

// CompareStore compares a store with a model state (names and full contents).
func CompareStore(st *g.Store, ms *MState) string {
	got := st.GetCollectionNames()
	want := ms.Names()
	if len(got) != len(want) || strings.Join(got, "\x00") != strings.Join(want, "\x00") {
		return fmt.Sprintf("collection names %q, expected %q", got, want)
	}
	for _, name := range want {
		c := st.GetCollection(name)
		if c == nil {
			return fmt.Sprintf("GetCollection(%q) is nil", name)
		}
		if msg := compareColl(st, c, ms.Colls[name], nil); msg != "" {
			return fmt.Sprintf("collection %q: %s", name, msg)
		}
	}
	return ""
}

// probe opens a copy of the file image in a fresh store and compares it with
// the last durable state.
func (w *World) probe() {
	if w.file == nil {
		return
	}
	var want *MState
	if len(w.durable) > 0 {
		want = w.durable[len(w.durable)-1].ms
	} else {
		want = NewMState()
	}
	st, err := w.openCopy(w.file, want)
	if err != nil {
		if len(w.durable) == 0 && len(w.file.B) > 0 && strings.Contains(err.Error(), "couldn't find roots") {
			// a file holding bytes but no root record (failed first flush): the documented error
			w.ev["probe_no_roots"]++
			return
		}
		w.failf("probe-open", "re-opening a copy of the file failed: %v", err)
	}
	if msg := CompareStore(st, want); msg != "" {
		w.failf("durable", "a fresh store opened on a copy of the file does not show the last flushed state: %s", msg)
	}
	st.Close()
	w.ev["probe"]++
}

// finish runs the end-of-case obligations.
func (w *World) finish() {
	if w.opt.Plan != nil {
		// force reuse of any node that was wrongly freed after the fault
		w.churn(48)
		w.checkAll()
		w.probe()
	}
	if w.rc != nil {
		for _, sh := range w.snaps {
			sh.st.Close()
			sh.closed = true
		}
		w.snaps = nil
		if !w.orig.closed {
			w.orig.st.Close()
			w.orig.closed = true
		}
		w.refCheckClosed()
	}
	w.waitGoroutines("end of case")
}

// waitGoroutines waits until helper goroutines (iterator producers) are gone.
func (w *World) waitGoroutines(where string) {
	for i := 0; runtime.NumGoroutine() > w.baseG; i++ {
		if i < 2000 {
			runtime.Gosched()
			continue
		}
		time.Sleep(200 * time.Microsecond)
		if i > 2000+50000 { // ~10 s
			w.failf("goroutine-leak", "%s: %d goroutines still running, %d at start; an iterator producer did not exit", where, runtime.NumGoroutine(), w.baseG)
		}
	}
}

func sortedKeys(m map[string]int) []string {
	r := make([]string, 0, len(m))
	for k := range m {
		r = append(r, k)
	}
	sort.Strings(r)
	return r
}
