package verifharness

// replayers maps a property id to the function that re-runs a saved case
// for engines that are not plain Run(case, spec.Opts).
var replayers = map[string]func(c Case) *Violation{}

// ReplayCase re-executes a saved case through the engine that produced it.
func ReplayCase(c Case) *Violation {
	id := c.Cfg.Profile
	if len(id) >= 3 {
		id = id[:3]
	}
	if c.Cfg.FailAt > 0 && id != "C17" {
		// a faulted execution of any fault phase (C07, C18)
		v, _ := guarded(id, c, func() (*Violation, map[string]int) { v, ev, _ := RunFault(c); return v, ev })
		return v
	}
	if f, ok := replayers[id]; ok {
		v, _ := guarded(id, c, func() (*Violation, map[string]int) { return f(c), nil })
		return v
	}
	s := Specs[id]
	if s == nil {
		return &Violation{Prop: id, Sig: "harness", Msg: "no engine for profile " + c.Cfg.Profile}
	}
	v, _ := guarded(id, c, func() (*Violation, map[string]int) { return Run(c, s.Opts) })
	return v
}
