package verifharness

import (
	"bytes"
	"fmt"

	g "github.com/cbehopkins/gkvlite"
)

// iterState is one open iterator of an OpIter script.
type iterState struct {
	op       *Op
	c        *g.Collection
	mc       *MColl // live model of the collection
	it       g.ItemIterator
	want     [][]byte // expected key sequence, frozen at the first Next
	frozen   *MColl
	started  bool
	pos      int
	done     bool // Close called or exhaustion seen
	closedAt int
}

// execIter interprets an iterator script.  op describes iterator 0, op.Sub
// further iterators (at most two more); op.Val is the script: each byte b
// selects iterator (b>>2)%n and action b&3: 0,1 = Next (+Result), 2 = Close,
// 3 = a mutation of the iterator's collection by the same goroutine.
func (w *World) execIter(op *Op) bool {
	h := w.handle(op.S)
	if h.closed {
		return true
	}
	specs := []*Op{op}
	for i := range op.Sub {
		if op.Sub[i].K == OpIter && len(specs) < 3 {
			specs = append(specs, &op.Sub[i])
		}
	}
	var its []*iterState
	refs0 := map[*g.Collection]int64{}
	for _, sp := range specs {
		c, mc := w.collFor(h, sp.C, !h.snap)
		if c == nil {
			continue
		}
		if _, ok := refs0[c]; !ok {
			refs0[c] = c.VerifRootRefs()
		}
		st := &iterState{op: sp, c: c, mc: mc}
		if sp.Flag%2 == 0 {
			st.it = c.IterateAscend(sp.Key, sp.WV)
		} else {
			st.it = c.IterateDescend(sp.Key, sp.WV)
		}
		its = append(its, st)
	}
	if len(its) == 0 {
		return true
	}
	mutN := 0
	storeClosed := false
	for si, b := range op.Val {
		st := its[int(b>>2)%len(its)]
		switch b & 3 {
		case 0, 1:
			if !st.started {
				st.started = true
				st.frozen = st.mc.Clone()
				if st.op.Flag%2 == 0 {
					st.want = st.frozen.Ascend(st.op.Key)
				} else {
					st.want = st.frozen.Descend(st.op.Key)
				}
			}
			ok := st.it.Next()
			if st.done {
				if ok {
					w.failf("iter-next-after-end", "iterator Next() returned true after Close()/exhaustion (script step %d)", si)
				}
				w.ev["iter_next_after_end"]++
				continue
			}
			if st.pos >= len(st.want) {
				if ok {
					r := st.it.Result()
					w.failf("iter-extra", "iterator delivered an extra item %s beyond the model's range of %d", itemKey(r), len(st.want))
				}
				st.done = true
				w.ev["iter_exhausted"]++
				continue
			}
			if !ok {
				w.failf("iter-short", "iterator ended after %d items, the model's range has %d (err %v)", st.pos, len(st.want), st.it.Err())
			}
			r := st.it.Result()
			k := st.want[st.pos]
			mi := st.frozen.Items[string(k)]
			if r == nil || !bytes.Equal(r.Key, k) || r.Priority != mi.Prio {
				w.failf("iter-item", "iterator position %d: got %s, model {%s p%d}", st.pos, itemKey(r), qb(k), mi.Prio)
			}
			if st.op.WV && (r.Val == nil || !bytes.Equal(r.Val, mi.Val)) {
				w.failf("iter-value", "iterator position %d key %s: value %s, model %s", st.pos, qb(k), qb(r.Val), qb(mi.Val))
			}
			st.pos++
		case 2:
			if !st.done && st.started && st.pos > 0 && st.pos < len(st.want) {
				w.ev["iter_closed_inside"]++
			}
			if st.done {
				w.ev["iter_close_again"]++
			}
			st.it.Close()
			st.done = true
			st.started = true
			w.ev["iter_close"]++
		case 3:
			if h.snap && w.file == nil && !h.closed && !w.isVisiting(h) {
				// memory-only snapshot: release the snapshot store while its iterators are
				// in the middle of their walks (each producer holds its own pin and needs no
				// file).  Only when every iterator of the script has begun its walk or is
				// over: Next() on an iterator whose walk would start on a closed store is a
				// caller error.
				all := true
				for _, o := range its {
					if !o.started && !o.done {
						all = false
					}
				}
				if !all {
					continue
				}
				for i, sh := range w.snaps {
					if sh == h {
						w.snaps = append(w.snaps[:i:i], w.snaps[i+1:]...)
						break
					}
				}
				h.st.Close()
				h.closed = true
				storeClosed = true
				w.ev["snapclose"]++
				w.ev["iter_store_closed_under_iterator"]++
				w.ev["released"]++
				w.released++
				continue
			}
			if h.snap || w.orig.closed {
				continue
			}
			mutN++
			key := []byte(fmt.Sprintf("~it%d", mutN%3))
			val := []byte{byte(si)}
			if mutN%4 == 3 {
				if _, had := st.mc.Items[string(key)]; had {
					was, err := st.c.Delete(key)
					if err != nil || !was {
						w.failf("iter-mutation", "Delete while iterators are open: %v %v", was, err)
					}
					delete(st.mc.Items, string(key))
					w.ev["iter_mutation"]++
					continue
				}
			}
			it := w.newItem(key, val, int32(si%5))
			err := st.c.SetItem(it)
			w.dropAppRef(h, st.c, it)
			if err != nil {
				w.failf("iter-mutation", "SetItem while iterators are open failed: %v", err)
			}
			if old, had := st.mc.Items[string(key)]; had && int32(si%5) < old.Prio {
				w.lowered[collName(st.op.C)] = true
			}
			st.mc.Items[string(key)] = MItem{Val: val, Prio: int32(si % 5)}
			w.ev["iter_mutation"]++
		}
	}
	// abandon whatever is still open
	for _, st := range its {
		if !st.done {
			if st.started && st.pos < len(st.want) {
				w.ev["iter_abandoned_inside"]++
			}
			st.it.Close()
			st.done = true
		}
		st.it.Close() // Close again must be harmless
		if st.it.Next() {
			w.failf("iter-next-after-end", "iterator Next() returned true after Close()")
		}
		if err := st.it.Err(); err != nil {
			w.failf("iter-err", "iterator Err() = %v without any file fault", err)
		}
	}
	w.waitGoroutines("after closing all iterators")
	for c, r0 := range refs0 {
		if storeClosed {
			break // the handle's collections are closed: they have no version any more
		}
		if r := c.VerifRootRefs(); r != r0 && mutN == 0 {
			w.failf("iter-version-leak", "collection version reference count is %d after all iterators ended, %d before they were created", r, r0)
		}
		if mutN > 0 && len(w.snaps) == 0 {
			if r := c.VerifRootRefs(); r != 1 {
				w.failf("iter-version-leak", "current version has %d references after all iterators ended (mutations happened meanwhile), want 1", r)
			}
		}
	}
	w.ev["iter_scripts"]++
	if len(its) > 1 {
		w.ev["iter_multi"]++
	}
	return true
}
