package verifharness

import (
	"bytes"
	"math"

	"pgregory.net/rapid"
)

// KeyPool holds keys chosen to collide and to exercise ordering edge cases.
var KeyPool = [][]byte{
	[]byte("a"), []byte("b"), []byte("c"), []byte("d"), []byte("aa"), []byte("ab"),
	[]byte("b\x00"), []byte("\x00"), []byte("\xff"), []byte("\xff\xff"), []byte("10"), []byte("9"),
	[]byte("e"), []byte("f"), []byte("ba"), []byte("~it1"),
}

type wk struct {
	k string
	w int
}

// Profile describes the quantifier domain of one property: which ops a
// generated history may contain and how its arguments are drawn.
type Profile struct {
	Name     string
	Kinds    []wk
	MinOps   int
	MaxOps   int
	NColls   int  // collection indices 0..NColls-1
	MemPct   int  // percentage of memory-only stores
	Cmps     bool // non-default comparators
	BigVals  bool // occasionally 4 KiB values
	BigKeys  bool // occasionally 255/256/65535-byte keys
	Hostile  bool // values that look like pieces of root records
	Snaps    bool // read ops may address snapshots
	Nested   bool // visits may carry nested ops
	ReopenNoDrop bool // only Close+Reopen (reference counting needs Close)
	Stores   int  // max extra unrelated stores
	EndOnly  int  // percentage of cases that compare only at the end
	Monotone int  // percentage of cases drawn without lowering overwrites
	total    int
}

func (p *Profile) hasKind(k string) bool {
	for _, e := range p.Kinds {
		if e.k == k {
			return true
		}
	}
	return false
}

func (p *Profile) init() {
	if p.total == 0 {
		for _, e := range p.Kinds {
			p.total += e.w
		}
	}
}

type genState struct {
	prios map[string]int32 // generator's own view: "coll\x00key" -> last priority drawn (monotone mode)
	mono  bool
	step  int
}

func genKey(t *rapid.T, p *Profile) []byte {
	r := rapid.IntRange(0, 99).Draw(t, "keyclass")
	switch {
	case r < 55:
		return KeyPool[rapid.IntRange(0, 7).Draw(t, "hotkey")]
	case r < 78:
		return KeyPool[rapid.IntRange(0, len(KeyPool)-1).Draw(t, "poolkey")]
	case r < 97 || !p.BigKeys:
		return rapid.SliceOfN(rapid.Byte(), 1, 12).Draw(t, "key")
	case r < 99 || rapid.IntRange(0, 5).Draw(t, "huge") != 3:
		n := rapid.SampledFrom([]int{255, 256, 300}).Draw(t, "keylen")
		return bytes.Repeat([]byte{rapid.Byte().Draw(t, "fill")}, n)
	default:
		b := bytes.Repeat([]byte{'K'}, 65535)
		b[65534] = rapid.Byte().Draw(t, "last")
		return b
	}
}

var hostileVals = [][]byte{
	[]byte("3e4a5p3e4a5p"), []byte("0g1t2r0g1t2r"), []byte("0g1t2r0g1t2r\x00\x00\x00\x04"),
	[]byte("\x00\x00\x00\x00\x00\x00\x00\x00\x00\x00\x00\x283e4a5p3e4a5p"),
	[]byte("0g1t2r0g1t2r\x00\x00\x00\x04\x00\x00\x00\x2a{}\x00\x00\x00\x00\x00\x00\x00\x00\x00\x00\x00\x2a3e4a5p"),
	[]byte("3e4a5p"), []byte("p3e4a5p3e4a5"),
}

func genVal(t *rapid.T, p *Profile) []byte {
	r := rapid.IntRange(0, 99).Draw(t, "valclass")
	switch {
	case r < 88:
		return rapid.SliceOfN(rapid.Byte(), 0, 24).Draw(t, "val")
	case r < 94 && p.Hostile:
		return hostileVals[rapid.IntRange(0, len(hostileVals)-1).Draw(t, "hostile")]
	case r < 96 && p.BigVals:
		return bytes.Repeat([]byte{rapid.Byte().Draw(t, "fillv")}, 4096)
	default:
		return rapid.SliceOfN(rapid.Byte(), 0, 60).Draw(t, "val2")
	}
}

func genPrio(t *rapid.T) int32 {
	r := rapid.IntRange(0, 99).Draw(t, "prioclass")
	switch {
	case r < 65:
		return int32(rapid.IntRange(0, 3).Draw(t, "prio"))
	case r < 92:
		return rapid.Int32Range(0, math.MaxInt32).Draw(t, "prio32")
	default:
		return math.MaxInt32
	}
}

func genTarget(t *rapid.T, p *Profile, o *Op) {
	r := rapid.IntRange(0, 99).Draw(t, "tclass")
	switch {
	case r < 8:
		o.Nil = true
	case r < 16:
		o.Key = []byte{}
	case r < 70:
		o.Key = KeyPool[rapid.IntRange(0, len(KeyPool)-1).Draw(t, "tpool")]
	case r < 85:
		k := KeyPool[rapid.IntRange(0, len(KeyPool)-1).Draw(t, "tpool2")]
		o.Key = append(append([]byte{}, k...), 0) // just above a pool key
	default:
		o.Key = rapid.SliceOfN(rapid.Byte(), 1, 6).Draw(t, "tkey")
	}
}

func (p *Profile) drawKind(t *rapid.T) string {
	p.init()
	r := rapid.IntRange(0, p.total-1).Draw(t, "kind")
	for _, e := range p.Kinds {
		if r < e.w {
			return e.k
		}
		r -= e.w
	}
	return p.Kinds[0].k
}

func (p *Profile) genOpKind(t *rapid.T, kind string, gs *genState, depth int) Op {
	o := Op{K: kind}
	nc := p.NColls
	if nc <= 0 {
		nc = 1
	}
	coll := func() { o.C = rapid.IntRange(0, nc-1).Draw(t, "coll") }
	handle := func() {
		if p.Snaps {
			o.S = rapid.IntRange(0, 4).Draw(t, "handle")
		}
	}
	switch kind {
	case OpSet, OpSetR:
		coll()
		o.Key = genKey(t, p)
		o.Val = genVal(t, p)
		if kind == OpSet {
			if gs.mono {
				// distinct, never-lowering priorities: rank drawn, made unique by the step
				rank := rapid.IntRange(0, 2000).Draw(t, "rank")
				pr := int32(rank*1024 + gs.step%1024)
				id := collName(o.C) + "\x00" + string(o.Key)
				if old, ok := gs.prios[id]; ok && pr <= old {
					pr = old + 1 + int32(gs.step%7)*1024
				}
				gs.prios[id] = pr
				o.Prio = pr
			} else {
				o.Prio = genPrio(t)
			}
		}
	case OpDel, OpGet, OpExist:
		coll()
		handleIfRead(kind, handle)
		o.Key = genKey(t, p)
		if kind == OpDel && gs.mono {
			delete(gs.prios, collName(o.C)+"\x00"+string(o.Key))
		}
	case OpGetItem:
		coll()
		handle()
		o.Key = genKey(t, p)
		o.WV = rapid.Bool().Draw(t, "wv")
	case OpBadSet:
		coll()
		o.Flag = rapid.IntRange(0, 4).Draw(t, "bad")
		o.Prio = int32(rapid.IntRange(0, 5).Draw(t, "neg"))
	case OpMin, OpMax:
		coll()
		handle()
		o.WV = rapid.Bool().Draw(t, "wv")
	case OpTotals, OpLen:
		coll()
		handle()
	case OpNames:
		handle()
	case OpVisit:
		coll()
		handle()
		o.Flag = rapid.IntRange(0, NumVisitAPIs-1).Draw(t, "api")
		genTarget(t, p, &o)
		o.WV = rapid.Bool().Draw(t, "wv")
		if rapid.IntRange(0, 9).Draw(t, "stopclass") < 4 {
			o.N = rapid.IntRange(1, 6).Draw(t, "stop")
		}
		if p.Nested && depth == 0 && o.Flag < VIterAscend && rapid.IntRange(0, 9).Draw(t, "nest") < 5 {
			o.At = rapid.IntRange(0, 3).Draw(t, "at")
			n := rapid.IntRange(1, 3).Draw(t, "nsub")
			for i := 0; i < n; i++ {
				k := rapid.SampledFrom(nestedKinds).Draw(t, "subkind")
				o.Sub = append(o.Sub, p.genOpKind(t, k, gs, depth+1))
			}
		}
	case OpBlock:
		coll()
		handle()
		o.WV = rapid.Bool().Draw(t, "wv")
		o.Flag = rapid.IntRange(0, 3).Draw(t, "mangler")
		o.N = rapid.IntRange(0, 1000).Draw(t, "mseed")
	case OpRandom:
		coll()
		handle()
	case OpEvict:
		coll()
		o.N = rapid.IntRange(1, 12).Draw(t, "n")
	case OpReopen:
		if !p.ReopenNoDrop {
			o.Flag = rapid.IntRange(0, 1).Draw(t, "drop")
		}
	case OpSetColl:
		coll()
		if p.Cmps {
			o.Flag = rapid.IntRange(0, NumCmp-1).Draw(t, "cmp")
		}
		o.N = rapid.IntRange(0, 1).Draw(t, "nilcmp")
	case OpRmColl, OpWrite:
		coll()
	case OpSnap:
		o.S = rapid.IntRange(0, 4).Draw(t, "src")
	case OpSnapClose, OpSnapRev:
		o.S = rapid.IntRange(1, 4).Draw(t, "snap")
	case OpSnapBad:
		o.S = rapid.IntRange(1, 4).Draw(t, "snap")
		coll()
		o.Flag = rapid.IntRange(0, 4).Draw(t, "what")
		o.Key = genKey(t, p)
	case OpCopyTo:
		handle()
		r := rapid.IntRange(0, 9).Draw(t, "feclass")
		switch {
		case r < 2:
			o.N = rapid.IntRange(-1, 0).Draw(t, "fe0")
		case r < 8:
			o.N = rapid.IntRange(1, 6).Draw(t, "fe")
		default:
			o.N = rapid.IntRange(7, 40).Draw(t, "febig")
		}
		if o.N <= 0 {
			o.Flag = rapid.IntRange(0, 1).Draw(t, "dstmem")
		}
	case OpChurn:
		o.N = rapid.IntRange(4, 40).Draw(t, "n")
	case OpIter:
		coll()
		handle()
		o.Flag = rapid.IntRange(0, 1).Draw(t, "dir")
		genTarget(t, p, &o)
		if o.Nil {
			o.Nil = false
			o.Key = nil
		}
		o.WV = rapid.Bool().Draw(t, "wv")
		if depth == 0 {
			o.Val = rapid.SliceOfN(rapid.ByteRange(0, 11), 0, 14).Draw(t, "script")
			n := rapid.IntRange(0, 9).Draw(t, "extra")
			for i := 0; i < n-7; i++ {
				o.Sub = append(o.Sub, p.genOpKind(t, OpIter, gs, depth+1))
			}
		}
	}
	return o
}

var nestedKinds = []string{OpGet, OpGetItem, OpMin, OpTotals, OpVisit, OpSet, OpDel, OpEvict, OpSnap, OpSnapClose, OpFlush, OpSetColl, OpRmColl, OpChurn}

func handleIfRead(kind string, handle func()) {
	if kind != OpDel {
		handle()
	}
}

// GenCase returns the rapid generator of whole cases for a profile.
func GenCase(p *Profile) *rapid.Generator[Case] {
	return rapid.Custom(func(t *rapid.T) Case {
		var c Case
		c.Cfg.Profile = p.Name
		c.Cfg.Mem = p.MemPct > 0 && rapid.IntRange(0, 99).Draw(t, "mem") < p.MemPct
		c.Cfg.RandSeed = int64(rapid.IntRange(1, 1<<30).Draw(t, "randseed"))
		c.Cfg.CheckEvery = 1
		endOnly := p.EndOnly
		if endOnly == 0 {
			endOnly = 55
		}
		if rapid.IntRange(0, 99).Draw(t, "endonly") < endOnly {
			c.Cfg.CheckEvery = rapid.SampledFrom([]int{0, 0, 3, 7}).Draw(t, "checkevery")
		}
		if p.Cmps {
			c.Cfg.DefCmp = rapid.IntRange(0, NumCmp-1).Draw(t, "defcmp")
		}
		if p.Stores > 0 {
			c.Cfg.Stores = rapid.IntRange(0, p.Stores).Draw(t, "stores")
		}
		gs := &genState{prios: map[string]int32{}}
		if p.Monotone > 0 {
			gs.mono = rapid.IntRange(0, 99).Draw(t, "mono") < p.Monotone
			c.Cfg.Monotone = gs.mono
		}
		n := rapid.IntRange(p.MinOps, p.MaxOps).Draw(t, "nops")
		for i := 0; i < n; i++ {
			gs.step = i
			k := p.drawKind(t)
			if gs.mono && k == OpSetR {
				k = OpSet
			}
			c.Ops = append(c.Ops, p.genOpKind(t, k, gs, 0))
			// Evictions only bite on flushed items: follow a Flush by a burst of
			// evictions in a good share of cases so that evicted states are common.
			if k == OpFlush && p.hasKind(OpEvict) && rapid.IntRange(0, 9).Draw(t, "evictafterflush") < 4 {
				nc := p.NColls
				if nc <= 0 {
					nc = 1
				}
				c.Ops = append(c.Ops, Op{K: OpEvict, C: rapid.IntRange(0, nc-1).Draw(t, "evictcoll"), N: rapid.IntRange(2, 12).Draw(t, "evictn"), Flag: 1})
			}
		}
		return c
	})
}
