package verifharness

import (
	"bytes"
	"math"
	"os"

	"pgregory.net/rapid"
)

// KeyPool holds keys chosen to collide and to exercise ordering edge cases.
var KeyPool = [][]byte{
	[]byte("a"), []byte("b"), []byte("c"), []byte("d"), []byte("aa"), []byte("ab"),
	[]byte("b\x00"), []byte("\x00"), []byte("\xff"), []byte("\xff\xff"), []byte("10"), []byte("9"),
	[]byte("e"), []byte("f"), []byte("ba"), []byte("~it1"),
}

type wk struct {
	k string
	w int
}

// Profile describes the quantifier domain of one property: which ops a
// generated history may contain and how its arguments are drawn.
type Profile struct {
	Name     string
	Kinds    []wk
	MinOps   int
	MaxOps   int
	NColls   int  // collection indices 0..NColls-1
	MemPct   int  // percentage of memory-only stores
	Cmps     bool // non-default comparators
	BigVals  bool // occasionally 4 KiB values
	BigKeys  bool // occasionally 255/256/65535-byte keys
	Hostile  bool // values that look like pieces of root records
	Snaps    bool // read ops may address snapshots
	Nested   bool // visits may carry nested ops
	ReopenNoDrop bool // only Close+Reopen (reference counting needs Close)
	PlainNames bool // always the plain collection names (engines that address "a","b" literally)
	Framed int // percentage of cases whose value callbacks frame every value with a 4-byte trailer
	Bulk int // per mille of the cases that start with a bulk load of 1300-4000 items (then few ops, comparison at the end)
	BlockMutations bool // visitors of block/random visits may also mutate (then only termination and later contents are judged)
	NoGiant bool // never draw values above 64 KiB (fault enumerations re-open thousands of times per history)
	HugeNames bool // rarely: a 70 000-byte collection name (root records beyond 64 KiB)
	NestedKinds []string // ops a visitor callback may run (default nestedKinds)
	Stores   int  // max extra unrelated stores
	EndOnly  int  // percentage of cases that compare only at the end
	Monotone int  // percentage of cases drawn without lowering overwrites
	NoPrelude int // 1: never prepend the bulk-load prelude
	total    int
}

func (p *Profile) hasKind(k string) bool {
	for _, e := range p.Kinds {
		if e.k == k {
			return true
		}
	}
	return false
}

func (p *Profile) init() {
	if p.total == 0 {
		for _, e := range p.Kinds {
			p.total += e.w
		}
	}
}

var thoroughTier = os.Getenv("VERIF_TIER") == "thorough"

type genState struct {
	prios map[string]int32 // generator's own view: "coll\x00key" -> last priority drawn (monotone mode)
	mono  bool
	step  int
}

func genKey(t *rapid.T, p *Profile) []byte {
	r := uni(t, 100, "keyclass")
	switch {
	case r < 55:
		return KeyPool[uni(t, 8, "hotkey")]
	case r < 78:
		return KeyPool[uni(t, len(KeyPool), "poolkey")]
	case r < 97 || !p.BigKeys:
		return rapid.SliceOfN(rapid.Byte(), 1, 12).Draw(t, "key")
	case r < 99 || uni(t, 6, "huge") != 3:
		n := rapid.SampledFrom([]int{255, 256, 300, 113, 129, 241}).Draw(t, "keylen")
		return patternKey(n, rapid.Byte().Draw(t, "fill"))
	default:
		b := patternKey(65535, 'K')
		b[65534] = rapid.Byte().Draw(t, "last")
		return b
	}
}

// patternKey returns an n-byte key whose bytes all differ from their
// neighbours at every distance up to 250 (a key read back from a wrong offset,
// or assembled from misplaced pieces, does not compare equal).
func patternKey(n int, fill byte) []byte {
	b := make([]byte, n)
	for i := range b {
		b[i] = fill + byte(i%251)*7 + byte(i/251)
	}
	return b
}

var hostileVals = [][]byte{
	[]byte("3e4a5p3e4a5p"), []byte("0g1t2r0g1t2r"), []byte("0g1t2r0g1t2r\x00\x00\x00\x04"),
	[]byte("\x00\x00\x00\x00\x00\x00\x00\x00\x00\x00\x00\x283e4a5p3e4a5p"),
	[]byte("0g1t2r0g1t2r\x00\x00\x00\x04\x00\x00\x00\x2a{}\x00\x00\x00\x00\x00\x00\x00\x00\x00\x00\x00\x2a3e4a5p"),
	[]byte("3e4a5p"), []byte("p3e4a5p3e4a5"),
}

// giantDrawn is set by genVal when the case being generated got a value above
// 64 KiB (generation is sequential).  gkvlite finds the last root record by a
// byte-wise backward scan, so megabytes of unflushed bytes behind it make every
// open slow: such cases get no Collection.Write after the giant value.
var giantDrawn bool

func genVal(t *rapid.T, p *Profile) []byte {
	r := uni(t, 100, "valclass")
	if p.BigVals && !p.NoGiant && ((r == 99 && uni(t, 12, "giant") == 0) || (giantDrawn && r >= 80)) {
		// (once a case has one such value, a fifth of its later values are large too)
		giantDrawn = true
		// rarely: a value just above 1 MiB (or 64 KiB) - sizes at which an
		// implementation might start to split or cap reads and writes
		n := 1<<20 + uni(t, 3000, "giantlen")
		if uni(t, 3, "giantclass") != 0 {
			// around 8, 16, 32 and 64 KiB (from 2 bytes below to 300 above)
			n = 1<<(13+uni(t, 4, "giantpow")) - 2 + uni(t, 302, "giantdelta")
		}
		b := make([]byte, n)
		f := rapid.Byte().Draw(t, "giantfill")
		for i := range b {
			b[i] = f + byte(i%253)
		}
		return b
	}
	switch {
	case r < 88:
		return rapid.SliceOfN(rapid.Byte(), 0, 24).Draw(t, "val")
	case r < 94 && p.Hostile:
		return hostileVals[uni(t, len(hostileVals), "hostile")]
	case r < 95 && p.BigVals:
		return bytes.Repeat([]byte{rapid.Byte().Draw(t, "fillv")}, 4096)
	case r < 97 && p.BigVals:
		// lengths spread densely around 4 KiB, so that what one Flush appends
		// straddles I/O-block-sized boundaries at every alignment
		return bytes.Repeat([]byte{rapid.Byte().Draw(t, "fillv")}, 3700+uni(t, 512, "near4k"))
	default:
		return rapid.SliceOfN(rapid.Byte(), 0, 60).Draw(t, "val2")
	}
}

func genPrio(t *rapid.T) int32 {
	r := uni(t, 100, "prioclass")
	switch {
	case r < 65:
		return int32(rapid.IntRange(0, 3).Draw(t, "prio"))
	case r < 92:
		return rapid.Int32Range(0, math.MaxInt32).Draw(t, "prio32")
	default:
		return math.MaxInt32
	}
}

func genTarget(t *rapid.T, p *Profile, o *Op) {
	r := uni(t, 100, "tclass")
	switch {
	case r < 8:
		o.Nil = true
	case r < 16:
		o.Key = []byte{}
	case r < 70:
		o.Key = KeyPool[uni(t, len(KeyPool), "tpool")]
	case r < 85:
		k := KeyPool[uni(t, len(KeyPool), "tpool2")]
		o.Key = append(append([]byte{}, k...), 0) // just above a pool key
	default:
		o.Key = rapid.SliceOfN(rapid.Byte(), 1, 6).Draw(t, "tkey")
	}
}

func (p *Profile) drawKind(t *rapid.T) string {
	p.init()
	r := uni(t, p.total, "kind")
	for _, e := range p.Kinds {
		if r < e.w {
			return e.k
		}
		r -= e.w
	}
	return p.Kinds[0].k
}

func (p *Profile) genOpKind(t *rapid.T, kind string, gs *genState, depth int) Op {
	o := Op{K: kind}
	nc := p.NColls
	if nc <= 0 {
		nc = 1
	}
	coll := func() { o.C = uni(t, nc, "coll") }
	handle := func() {
		if p.Snaps {
			o.S = uni(t, 5, "handle")
		}
	}
	switch kind {
	case OpSet, OpSetR:
		coll()
		o.Key = genKey(t, p)
		o.Val = genVal(t, p)
		if kind == OpSetR && uni(t, 4, "setany") == 0 {
			o.N = 1 // through SetAny
		}
		if p.Hostile && kind == OpSet && uni(t, 100, "rthostile") < 4 {
			o.Flag = 1 + uni(t, 4, "rthostilekind") // run-time copy / fragment of the file's own last root record
		}
		if kind == OpSet {
			if gs.mono {
				// distinct, never-lowering priorities: rank drawn, made unique by the step
				rank := rapid.IntRange(0, 2000).Draw(t, "rank")
				pr := int32(rank*1024 + gs.step%1024)
				id := collName(o.C) + "\x00" + string(o.Key)
				if old, ok := gs.prios[id]; ok && pr <= old {
					pr = old + 1 + int32(gs.step%7)*1024
				}
				gs.prios[id] = pr
				o.Prio = pr
			} else {
				o.Prio = genPrio(t)
			}
		}
	case OpDel, OpGet, OpExist:
		if kind == OpDel && uni(t, 12, "delany") == 0 {
			o.N = 1 // through DeleteAny
		}
		coll()
		handleIfRead(kind, handle)
		o.Key = genKey(t, p)
		if kind == OpDel && gs.mono {
			delete(gs.prios, collName(o.C)+"\x00"+string(o.Key))
		}
	case OpGetItem:
		coll()
		handle()
		o.Key = genKey(t, p)
		o.WV = rapid.Bool().Draw(t, "wv")
	case OpBadSet:
		coll()
		o.Flag = uni(t, 8, "bad")
		o.Prio = int32(rapid.IntRange(0, 5).Draw(t, "neg"))
	case OpMin, OpMax:
		coll()
		handle()
		o.WV = rapid.Bool().Draw(t, "wv")
	case OpTotals, OpLen:
		coll()
		handle()
	case OpNames:
		handle()
	case OpVisit:
		coll()
		handle()
		o.Flag = uni(t, NumVisitAPIs, "api")
		genTarget(t, p, &o)
		o.WV = rapid.Bool().Draw(t, "wv")
		if uni(t, 10, "stopclass") < 4 {
			o.N = rapid.IntRange(1, 6).Draw(t, "stop")
		}
		if p.Nested && depth == 0 && o.Flag < VIterAscend && uni(t, 10, "nest") < 5 {
			o.At = rapid.IntRange(0, 3).Draw(t, "at")
			n := rapid.IntRange(1, 3).Draw(t, "nsub")
			for i := 0; i < n; i++ {
				nk := nestedKinds
				if p.NestedKinds != nil {
					nk = p.NestedKinds
				}
				k := nk[uni(t, len(nk), "subkind")]
				o.Sub = append(o.Sub, p.genOpKind(t, k, gs, depth+1))
			}
		}
	case OpBlock:
		coll()
		handle()
		o.WV = rapid.Bool().Draw(t, "wv")
		o.Flag = uni(t, 4, "mangler")
		o.N = rapid.IntRange(0, 1000).Draw(t, "mseed")
		p.genBlockSubs(t, &o, gs, depth)
	case OpRandom:
		coll()
		handle()
		p.genBlockSubs(t, &o, gs, depth)
	case OpEvict:
		coll()
		o.N = rapid.IntRange(1, 12).Draw(t, "n")
	case OpReopen:
		if !p.ReopenNoDrop {
			o.Flag = uni(t, 2, "drop")
		}
	case OpSetColl:
		coll()
		if p.Cmps {
			o.Flag = uni(t, NumCmp, "cmp")
		}
		o.N = uni(t, 2, "nilcmp")
	case OpRmColl, OpWrite:
		coll()
	case OpSnap:
		o.S = uni(t, 5, "src")
	case OpSnapClose, OpSnapRev:
		o.S = 1 + uni(t, 4, "snap")
	case OpSnapBad:
		o.S = 1 + uni(t, 4, "snap")
		coll()
		o.Flag = uni(t, 5, "what")
		o.Key = genKey(t, p)
	case OpCopyTo:
		handle()
		r := uni(t, 10, "feclass")
		switch {
		case r < 2:
			o.N = rapid.IntRange(-1, 0).Draw(t, "fe0")
		case r < 8:
			o.N = rapid.IntRange(1, 6).Draw(t, "fe")
		default:
			o.N = rapid.IntRange(7, 40).Draw(t, "febig")
		}
		if o.N <= 0 {
			o.Flag = uni(t, 2, "dstmem")
		}
	case OpChurn:
		o.N = rapid.IntRange(4, 40).Draw(t, "n")
	case OpMisc:
		coll()
		handle()
		o.Flag = uni(t, 6, "misc")
		o.Key = genKey(t, p)
	case OpIter:
		coll()
		handle()
		o.Flag = uni(t, 2, "dir")
		genTarget(t, p, &o)
		if o.Nil {
			o.Nil = false
			o.Key = nil
		}
		o.WV = rapid.Bool().Draw(t, "wv")
		if depth == 0 {
			o.Val = rapid.SliceOfN(rapid.ByteRange(0, 11), 0, 14).Draw(t, "script")
			n := uni(t, 10, "extra")
			for i := 0; i < n-7; i++ {
				o.Sub = append(o.Sub, p.genOpKind(t, OpIter, gs, depth+1))
			}
		}
	}
	return o
}

// genBlockSubs lets the visitor of a whole-collection enumeration call back
// into the store (reads and further enumerations; C16/C18).
func (p *Profile) genBlockSubs(t *rapid.T, o *Op, gs *genState, depth int) {
	if !p.Nested || depth != 0 || uni(t, 10, "blocknest") >= 3 {
		return
	}
	o.At = rapid.IntRange(0, 4).Draw(t, "at")
	n := rapid.IntRange(1, 2).Draw(t, "nsub")
	for i := 0; i < n; i++ {
		kinds := blockNestedKinds
		if p.BlockMutations {
			kinds = blockNestedMutKinds
		}
		k := kinds[uni(t, len(kinds), "subkind")]
		sub := p.genOpKind(t, k, gs, depth+1)
		sub.C, sub.S = o.C, o.S // the same collection through the same handle
		o.Sub = append(o.Sub, sub)
	}
}

var blockNestedKinds = []string{OpRandom, OpBlock, OpLen, OpGetItem, OpVisit, OpRandom}

// with mutations by the (single) mutating goroutine from inside the visitor (C10, C18)
var blockNestedMutKinds = []string{OpRandom, OpBlock, OpLen, OpGetItem, OpVisit, OpSet, OpSet, OpDel, OpEvict}

var nestedKinds = []string{OpGet, OpGetItem, OpMin, OpTotals, OpVisit, OpSet, OpDel, OpEvict, OpSnap, OpSnapClose, OpFlush, OpSetColl, OpRmColl, OpChurn}

func handleIfRead(kind string, handle func()) {
	if kind != OpDel {
		handle()
	}
}

// GenCase returns the rapid generator of whole cases for a profile.
func GenCase(p *Profile) *rapid.Generator[Case] {
	return rapid.Custom(func(t *rapid.T) Case {
		var c Case
		giantDrawn = false
		c.Cfg.Profile = p.Name
		c.Cfg.Mem = p.MemPct > 0 && uni(t, 100, "mem") < p.MemPct
		c.Cfg.RandSeed = int64(rapid.IntRange(1, 1<<30).Draw(t, "randseed"))
		c.Cfg.CheckEvery = 1
		endOnly := p.EndOnly
		if endOnly == 0 {
			endOnly = 55
		}
		if uni(t, 100, "endonly") < endOnly {
			c.Cfg.CheckEvery = rapid.SampledFrom([]int{0, 0, 3, 7}).Draw(t, "checkevery")
		}
		if p.Cmps {
			c.Cfg.DefCmp = uni(t, NumCmp, "defcmp")
			// how an application re-supplies its comparators after a load: through the
			// KeyCompareForCollection callback, or by SetCollection(name, cmp) afterwards
			c.Cfg.CmpViaSet = uni(t, 3, "cmpviaset") == 0
		}
		if !p.PlainNames && uni(t, 100, "nameset") < 40 {
			c.Cfg.NameSet = 1 + uni(t, len(NameSets)-2, "namesetidx")
		}
		if p.HugeNames && uni(t, 100, "hugename") < 1 {
			c.Cfg.NameSet = len(NameSets) - 1
		}
		curNameSet = c.Cfg.NameSet
		if p.Framed > 0 {
			switch r := uni(t, 100, "framed"); {
			case r < p.Framed:
				c.Cfg.Framed = true
			case r < p.Framed+p.Framed/2:
				c.Cfg.Masked = true
			}
		}
		if p.Stores > 0 {
			c.Cfg.Stores = rapid.IntRange(0, p.Stores).Draw(t, "stores")
		}
		gs := &genState{prios: map[string]int32{}}
		if p.Monotone > 0 {
			gs.mono = uni(t, 100, "mono") < p.Monotone
			c.Cfg.Monotone = gs.mono
		}
		// Prelude (a third of the cases of profiles that mutate): bulk-load one
		// collection with 5-12 distinct keys at spread priorities, then (file-backed)
		// flush and either evict everything or re-open, so that the generated ops
		// that follow act on a multi-level tree that is partly or not at all loaded.
		if p.hasKind(OpSet) && p.hasKind(OpFlush) && p.NoPrelude == 0 && uni(t, 100, "prelude") < 33 {
			nc := p.NColls
			if nc <= 0 {
				nc = 1
			}
			ci := uni(t, nc, "preludecoll")
			np := 5 + uni(t, 8, "preluden")
			perm := rapid.Permutation(KeyPool[:14]).Draw(t, "preludekeys")
			for i := 0; i < np; i++ {
				pr := int32(uni(t, 1000, "preludeprio"))*1024 + int32(i)
				gs.prios[collName(ci)+"\x00"+string(perm[i])] = pr
				c.Ops = append(c.Ops, Op{K: OpSet, C: ci, Key: perm[i], Val: []byte{byte('A' + i)}, Prio: pr})
			}
			if !c.Cfg.Mem {
				c.Ops = append(c.Ops, Op{K: OpFlush})
				if p.hasKind(OpReopen) && uni(t, 2, "preludereopen") == 1 {
					c.Ops = append(c.Ops, Op{K: OpReopen})
				} else if p.hasKind(OpEvict) {
					c.Ops = append(c.Ops, Op{K: OpEvict, N: 12, Flag: 1})
				}
			}
		}
		maxOps := p.MaxOps
		if p.Bulk > 0 && uni(t, 1000, "bulk") < p.Bulk {
			// a single flush with well over a thousand dirty nodes and items
			nc := p.NColls
			if nc <= 0 {
				nc = 1
			}
			bulk := Op{K: OpBulk, C: uni(t, nc, "bulkcoll"), N: 1300 + uni(t, 2700, "bulkn"), Flag: uni(t, 1000, "bulkseed")}
			if uni(t, 3, "bulkchain") == 0 {
				bulk.At, bulk.N = 1, 260+uni(t, 900, "chainn") // tied priorities in key order: a list-shaped tree
			}
			c.Ops = append(c.Ops, bulk)
			if !c.Cfg.Mem {
				c.Ops = append(c.Ops, Op{K: OpFlush})
			}
			c.Cfg.CheckEvery = 0
			c.Cfg.NameSet = 0
			curNameSet = 0
			maxOps = p.MinOps + 6
		} else if c.Cfg.NameSet == len(NameSets)-1 {
			maxOps = p.MinOps + 10 // every Flush writes a 70 KB root record: keep these histories short
		} else if thoroughTier && uni(t, 8, "long") == 0 {
			maxOps *= 5 // the thorough tier also explores long histories (deeper trees, more versions)
		}
		n := rapid.IntRange(p.MinOps, maxOps).Draw(t, "nops")
		for i := 0; i < n; i++ {
			gs.step = i + 16
			k := p.drawKind(t)
			if gs.mono && k == OpSetR {
				k = OpSet
			}
			if giantDrawn && k == OpWrite {
				k = OpFlush
			}
			c.Ops = append(c.Ops, p.genOpKind(t, k, gs, 0))
			// Evictions only bite on flushed items: follow a Flush by a burst of
			// evictions in a good share of cases so that evicted states are common.
			if k == OpFlush && p.hasKind(OpEvict) && uni(t, 10, "evictafterflush") < 4 {
				nc := p.NColls
				if nc <= 0 {
					nc = 1
				}
				c.Ops = append(c.Ops, Op{K: OpEvict, C: uni(t, nc, "evictcoll"), N: rapid.IntRange(2, 12).Draw(t, "evictn"), Flag: 1})
			}
		}
		if giantDrawn {
			// a value of a megabyte makes every probe re-open and every complete read-back
			// copy megabytes: keep such histories short and read back sparsely (a 32-op
			// history with a read-back after every op, run twice by C17 with chunked value
			// callbacks, took 13 s on a busy machine and tripped the 30 s watchdog once)
			if len(c.Ops) > 24 {
				c.Ops = c.Ops[:24]
			}
			if c.Cfg.CheckEvery == 1 {
				c.Cfg.CheckEvery = 7
			}
		}
		return c
	})
}

// uni draws a uniformly distributed integer in [0,n).  rapid's IntRange (and
// SampledFrom) favour small values and the range boundaries, which skews
// weighted choices such as the op kind; booleans are uniform, so the choice is
// assembled from boolean draws (5 spare bits keep the modulo bias below 4%).
// Shrinking clears bits, i.e. still moves towards the first alternatives.
func uni(t *rapid.T, n int, label string) int {
	if n <= 1 {
		return 0
	}
	nb := 5
	for 1<<(nb-5) < n {
		nb++
	}
	v := 0
	for i := 0; i < nb; i++ {
		if rapid.Bool().Draw(t, label) {
			v |= 1 << i
		}
	}
	return v % n
}
