package verifharness

// An independent reader for gkvlite's version-4 file layout, written from
// the layout description in property C14.  It deliberately shares no code,
// constants or types with the gkvlite package: every constant below is a
// literal, so a symmetric change of encoder and decoder inside gkvlite is
// still detected.

import (
	"bytes"
	"encoding/binary"
	"encoding/json"
	"fmt"
	"sort"
)

const (
	decMagicBeg   = "0g1t2r"
	decMagicEnd   = "3e4a5p"
	decVersion    = 4
	decItemHeader = 16
	decNodeLen    = 52
	decRootFixed  = 6 + 6 + 4 + 4 + 8 + 4 + 6 + 6 // everything but the JSON
)

// Extent is a byte range of the file with the kind of record it holds.
type Extent struct {
	Off  int64
	Len  int64
	Kind byte // 'i' item, 'n' node, 'r' root record
}

// DecItem is one decoded item, in key order.
type DecItem struct {
	Key, Val []byte
	Prio     int32
	Depth    int
	Off      int64 // item record offset
	Len      uint32
	ValOff   int64
}

// DecColl is one decoded collection.
type DecColl struct {
	RootOff  int64
	RootLen  uint32
	Items    []DecItem
	NumNodes int
}

// Decoded is the result of decoding one root record.
type Decoded struct {
	RootOff int64 // offset of the root record
	RootEnd int64 // end of the root record
	Colls   map[string]*DecColl
	Extents []Extent // every byte range reachable from this root record, plus the record itself
}

type decLoc struct {
	O int64  `json:"o"`
	L uint32 `json:"l"`
}

// rootAt validates a root record that ends exactly at end.
func rootAt(img []byte, end int64) (off int64, locs map[string]decLoc, err error) {
	if end < decRootFixed || end > int64(len(img)) {
		return 0, nil, fmt.Errorf("no room for a root record ending at %d", end)
	}
	tail := img[end-24 : end]
	if string(tail[12:18]) != decMagicEnd || string(tail[18:24]) != decMagicEnd {
		return 0, nil, fmt.Errorf("no doubled end magic at %d", end)
	}
	off = int64(binary.BigEndian.Uint64(tail[0:8]))
	length := binary.BigEndian.Uint32(tail[8:12])
	if off < 0 || off+int64(length) != end || int64(length) < decRootFixed {
		return 0, nil, fmt.Errorf("root record at %d: recorded offset %d / length %d inconsistent with its end %d", off, off, length, end)
	}
	rec := img[off:end]
	if string(rec[0:6]) != decMagicBeg || string(rec[6:12]) != decMagicBeg {
		return 0, nil, fmt.Errorf("root record at %d lacks the doubled begin magic", off)
	}
	if v := binary.BigEndian.Uint32(rec[12:16]); v != decVersion {
		return 0, nil, fmt.Errorf("root record at %d has version %d", off, v)
	}
	if l := binary.BigEndian.Uint32(rec[16:20]); l != length {
		return 0, nil, fmt.Errorf("root record at %d: leading length %d != trailing length %d", off, l, length)
	}
	js := rec[20 : len(rec)-24]
	locs = map[string]decLoc{}
	dec := json.NewDecoder(bytes.NewReader(js))
	if err := dec.Decode(&locs); err != nil {
		return 0, nil, fmt.Errorf("root record at %d: JSON %q: %v", off, js, err)
	}
	if dec.More() {
		return 0, nil, fmt.Errorf("root record at %d: trailing data after JSON", off)
	}
	// the JSON must be an object of {"o":..,"l":..} objects and nothing else
	var raw map[string]map[string]json.RawMessage
	if err := json.Unmarshal(js, &raw); err != nil {
		return 0, nil, fmt.Errorf("root record at %d: JSON shape: %v", off, err)
	}
	for name, m := range raw {
		for k := range m {
			if k != "o" && k != "l" {
				return 0, nil, fmt.Errorf("root record at %d: collection %q has unexpected JSON field %q", off, name, k)
			}
		}
		if len(m) != 2 {
			return 0, nil, fmt.Errorf("root record at %d: collection %q has %d JSON fields, want o and l", off, name, len(m))
		}
	}
	return off, locs, nil
}

// FindLastRoot scans backwards from the end of the image for the last valid
// root record (the decoder's own scan).
func FindLastRoot(img []byte) (end int64, ok bool) {
	for e := int64(len(img)); e >= decRootFixed; e-- {
		if img[e-1] != 'p' {
			continue
		}
		if _, _, err := rootAt(img, e); err == nil {
			return e, true
		}
	}
	return 0, false
}

type decoder struct {
	img  []byte
	cmp  func(name string) func(a, b []byte) int
	ext  []Extent
	memo map[int64]*decNodeInfo
}

type decNodeInfo struct {
	nn, nb uint64
}

// DecodeAt decodes the store state described by the root record ending at
// end, checking layout conformance on the way.
func DecodeAt(img []byte, end int64, cmpFor func(name string) int) (*Decoded, error) {
	off, locs, err := rootAt(img, end)
	if err != nil {
		return nil, err
	}
	d := &Decoded{RootOff: off, RootEnd: end, Colls: map[string]*DecColl{}}
	dc := &decoder{img: img, memo: map[int64]*decNodeInfo{}}
	dc.ext = append(dc.ext, Extent{off, end - off, 'r'})
	names := make([]string, 0, len(locs))
	for n := range locs {
		names = append(names, n)
	}
	sort.Strings(names)
	for _, name := range names {
		l := locs[name]
		c := &DecColl{RootOff: l.O, RootLen: l.L}
		d.Colls[name] = c
		if l.O == 0 && l.L == 0 {
			continue // empty collection
		}
		if l.O >= off {
			return nil, fmt.Errorf("collection %q: root node at %d is not before the root record at %d", name, l.O, off)
		}
		if _, _, err := dc.node(l.O, l.L, 0, c); err != nil {
			return nil, fmt.Errorf("collection %q: %v", name, err)
		}
		f := CmpFunc(cmpFor(name))
		for i := 1; i < len(c.Items); i++ {
			if f(c.Items[i-1].Key, c.Items[i].Key) >= 0 {
				return nil, fmt.Errorf("collection %q: persisted keys %s, %s not strictly ascending", name, qb(c.Items[i-1].Key), qb(c.Items[i].Key))
			}
		}
	}
	d.Extents = dc.ext
	return d, nil
}

// node decodes the node record at (off,l) and its subtree in key order.
func (dc *decoder) node(off int64, l uint32, depth int, c *DecColl) (nn, nb uint64, err error) {
	if l != decNodeLen {
		return 0, 0, fmt.Errorf("node location (%d,%d): node records are %d bytes", off, l, decNodeLen)
	}
	if off < 0 || off+decNodeLen > int64(len(dc.img)) {
		return 0, 0, fmt.Errorf("node record at %d lies outside the file (%d bytes)", off, len(dc.img))
	}
	if depth > 4096 {
		return 0, 0, fmt.Errorf("node chain deeper than 4096: cyclic")
	}
	b := dc.img[off : off+decNodeLen]
	iOff, iLen := int64(binary.BigEndian.Uint64(b[0:8])), binary.BigEndian.Uint32(b[8:12])
	lOff, lLen := int64(binary.BigEndian.Uint64(b[12:20])), binary.BigEndian.Uint32(b[20:24])
	rOff, rLen := int64(binary.BigEndian.Uint64(b[24:32])), binary.BigEndian.Uint32(b[32:36])
	recN, recB := binary.BigEndian.Uint64(b[36:44]), binary.BigEndian.Uint64(b[44:52])
	dc.ext = append(dc.ext, Extent{off, decNodeLen, 'n'})
	c.NumNodes++

	var ln, lb, rn, rb uint64
	if lOff != 0 || lLen != 0 {
		if lOff+int64(lLen) > off {
			return 0, 0, fmt.Errorf("node at %d was written before its left child at %d", off, lOff)
		}
		if ln, lb, err = dc.node(lOff, lLen, depth+1, c); err != nil {
			return 0, 0, err
		}
	}
	// the item
	if iLen < decItemHeader || iOff < 0 || iOff+int64(iLen) > int64(len(dc.img)) {
		return 0, 0, fmt.Errorf("node at %d: item location (%d,%d) invalid", off, iOff, iLen)
	}
	if iOff+int64(iLen) > off {
		return 0, 0, fmt.Errorf("node at %d was written before its item at %d", off, iOff)
	}
	h := dc.img[iOff : iOff+decItemHeader]
	total := binary.BigEndian.Uint32(h[0:4])
	klen := binary.BigEndian.Uint32(h[4:8])
	vlen := binary.BigEndian.Uint32(h[8:12])
	prio := int32(binary.BigEndian.Uint32(h[12:16]))
	if total != iLen || uint64(total) != uint64(decItemHeader)+uint64(klen)+uint64(vlen) {
		return 0, 0, fmt.Errorf("item record at %d is not self-delimiting: total %d, key %d, value %d, location length %d", iOff, total, klen, vlen, iLen)
	}
	if klen == 0 || klen > 65535 {
		return 0, 0, fmt.Errorf("item record at %d has key length %d", iOff, klen)
	}
	if prio < 0 {
		return 0, 0, fmt.Errorf("item record at %d has negative priority %d", iOff, prio)
	}
	key := dc.img[iOff+decItemHeader : iOff+decItemHeader+int64(klen)]
	valOff := iOff + decItemHeader + int64(klen)
	val := dc.img[valOff : valOff+int64(vlen)]
	dc.ext = append(dc.ext, Extent{iOff, int64(iLen), 'i'})
	c.Items = append(c.Items, DecItem{Key: key, Val: val, Prio: prio, Depth: depth, Off: iOff, Len: iLen, ValOff: valOff})

	if rOff != 0 || rLen != 0 {
		if rOff+int64(rLen) > off {
			return 0, 0, fmt.Errorf("node at %d was written before its right child at %d", off, rOff)
		}
		if rn, rb, err = dc.node(rOff, rLen, depth+1, c); err != nil {
			return 0, 0, err
		}
	}
	nn = 1 + ln + rn
	nb = uint64(klen) + uint64(vlen) + lb + rb
	if recN != nn {
		return 0, 0, fmt.Errorf("persisted node at %d records numNodes=%d, its subtree holds %d", off, recN, nn)
	}
	if recB != nb {
		return 0, 0, fmt.Errorf("persisted node at %d records numBytes=%d, its subtree holds %d", off, recB, nb)
	}
	return nn, nb, nil
}

// State converts the decoded contents into a model state (comparators taken from cmpFor).
func (d *Decoded) State(cmpFor func(name string) int) *MState {
	ms := NewMState()
	for name, c := range d.Colls {
		mc := &MColl{Cmp: cmpFor(name), Items: map[string]MItem{}}
		for _, it := range c.Items {
			mc.Items[string(it.Key)] = MItem{Val: append([]byte{}, it.Val...), Prio: it.Prio}
		}
		ms.Colls[name] = mc
	}
	return ms
}

// curValStored maps a value to the bytes the case's value callbacks store for it
// (nil: stored as is).  Set per case by World.run.
var curValStored func(v []byte) []byte

func storedForm(v []byte) []byte {
	if curValStored != nil {
		return curValStored(v)
	}
	return v
}

// CompareDecoded returns "" if the decoded state equals the model.
func CompareDecoded(d *Decoded, ms *MState) string {
	if len(d.Colls) != len(ms.Colls) {
		return fmt.Sprintf("decoded %d collections, model has %d (%q)", len(d.Colls), len(ms.Colls), ms.Names())
	}
	for name, mc := range ms.Colls {
		c := d.Colls[name]
		if c == nil {
			return fmt.Sprintf("collection %q missing from the root record", name)
		}
		keys := mc.Keys()
		if len(c.Items) != len(keys) {
			return fmt.Sprintf("collection %q: decoded %d items, model %d", name, len(c.Items), len(keys))
		}
		for i, k := range keys {
			it := c.Items[i]
			mi := mc.Items[string(k)]
			if !bytes.Equal(it.Key, k) {
				return fmt.Sprintf("collection %q position %d: decoded key %s, model %s", name, i, qb(it.Key), qb(k))
			}
			if want := storedForm(mi.Val); !bytes.Equal(it.Val, want) {
				return fmt.Sprintf("collection %q key %s: decoded value bytes %s, expected %s", name, qb(k), qb(it.Val), qb(want))
			}
			if it.Prio != mi.Prio {
				return fmt.Sprintf("collection %q key %s: decoded priority %d, model %d", name, qb(k), it.Prio, mi.Prio)
			}
		}
	}
	return ""
}

// Account checks that the extents of the given decodings cover [0,size)
// exactly: no gap, no partial overlap (identical extents may be shared
// between root records).
func Account(size int64, ds []*Decoded) string {
	type key struct{ o, l int64 }
	seen := map[key]byte{}
	var all []Extent
	for _, d := range ds {
		for _, e := range d.Extents {
			k := key{e.Off, e.Len}
			if kind, ok := seen[k]; ok {
				if kind != e.Kind {
					return fmt.Sprintf("bytes [%d,%d) are used both as %c and as %c record", e.Off, e.Off+e.Len, kind, e.Kind)
				}
				continue
			}
			seen[k] = e.Kind
			all = append(all, e)
		}
	}
	sort.Slice(all, func(i, j int) bool { return all[i].Off < all[j].Off })
	pos := int64(0)
	for _, e := range all {
		if e.Off > pos {
			return fmt.Sprintf("bytes [%d,%d) of the file belong to no record reachable from any root record", pos, e.Off)
		}
		if e.Off < pos {
			return fmt.Sprintf("record %c at [%d,%d) overlaps the previous record ending at %d", e.Kind, e.Off, e.Off+e.Len, pos)
		}
		pos = e.Off + e.Len
	}
	if pos != size {
		return fmt.Sprintf("records cover [0,%d) but the file has %d bytes", pos, size)
	}
	return ""
}

// decodeCheck is the C14 oracle, run after every successful Flush.
func (w *World) decodeCheck() {
	top := w.durable[len(w.durable)-1]
	cmpFor := func(name string) int {
		if mc := top.ms.Colls[name]; mc != nil {
			return mc.Cmp
		}
		return 0
	}
	img := w.file.B
	end, ok := FindLastRoot(img)
	if !ok {
		w.failf("decode-no-root", "the independent decoder finds no valid root record in the file after a successful Flush")
	}
	if end != int64(len(img)) {
		w.failf("decode-root-not-last", "after Flush the last valid root record ends at %d but the file has %d bytes", end, len(img))
	}
	d, err := DecodeAt(img, end, cmpFor)
	if err != nil {
		w.failf("layout", "file does not conform to the v4 layout: %v", err)
	}
	if msg := CompareDecoded(d, top.ms); msg != "" {
		w.failf("decode-mismatch", "independent decoder vs flushed state: %s", msg)
	}
	w.ev["decoded"]++
	// full byte accounting over all root records known to be in the file
	if w.junkEnd == 0 && w.ev["coll_write"] == 0 {
		var ds []*Decoded
		for _, du := range w.durable {
			ms := du.ms
			dd, err := DecodeAt(img, du.fileLen, func(name string) int {
				if mc := ms.Colls[name]; mc != nil {
					return mc.Cmp
				}
				return 0
			})
			if err != nil {
				w.failf("layout-old-root", "an earlier root record (ending at %d) no longer decodes: %v", du.fileLen, err)
			}
			if msg := CompareDecoded(dd, ms); msg != "" {
				w.failf("decode-old-mismatch", "earlier root record ending at %d: %s", du.fileLen, msg)
			}
			ds = append(ds, dd)
		}
		if msg := Account(int64(len(img)), ds); msg != "" {
			w.failf("accounting", "byte accounting over all root records: %s", msg)
		}
		w.ev["accounted"]++
	}
	if len(w.durable) >= 2 && len(top.ms.Colls) >= 2 {
		w.ev["decoded_multi"]++
	}
}
