package verifharness

import (
	"fmt"
	"os"
	"testing"

	"pgregory.net/rapid"
)

const c07Rule = "fault enumeration: each rapid-generated history (5-30 ops over SetItem/Set/Delete/Get/GetItem/Min/Max/GetTotals/Exist/Len/visits/evict/Flush/re-open/FlushRevert/CopyTo/block+random visits) is run fault-free to count the N StoreFile calls gkvlite issues, then re-executed once for EVERY k in 1..N with call k failing (reads, Stat, Truncate: outright; writes: outright and after 1 byte, half, all-but-one byte; thorough tier: every length of writes up to 64 bytes), on the store's file and on CopyTo's destination, each in a 'retry the failed call' and an 'abandon the failed call' variant. Oracle per execution: the API call in progress returns an error (never nil, never a panic/hang); visible contents == model before the call; a copy of the file re-opens to the last flush; the rest of the history plus a churn phase must behave exactly as the fault-free run. evaluations = faulted executions; non-trivial = the fault hit a mutation/Flush/open/FlushRevert/CopyTo (not a pure lookup) with >=3 ops still to run; distinct by (history hash, k, torn, variant)."

// faultRunner executes one faulted case and returns the violation (if any),
// the events and the plan (to see where the fault fired).
type faultRunner func(fc Case) (*Violation, map[string]int, *FaultPlan)

// faultEnumerate runs the complete single-fault enumeration of one history.
func faultEnumerate(rt *rapid.T, st *Stats, prop string, c Case, run faultRunner) {
	thorough := os.Getenv("VERIF_TIER") == "thorough"
	var n int
	var kinds []IOKind
	var lens []int
	v, _ := guarded(prop, c, func() (*Violation, map[string]int) {
		v, cnt, ks, ls, ev := faultFreeCount(c, faultOptsFor(prop))
		n, kinds, lens = cnt, ks, ls
		return v, ev
	})
	if v != nil {
		if prop == "C17" {
			return // judged by the differential of the main C17 phase
		}
		v.Sig = "faultfree:" + v.Sig
		p := saveFailure(prop, c, v)
		rt.Fatalf("VIOLATION-CANDIDATE property=%s sig=%q case=%s\n%s\ncase: %s", prop, v.Sig, p, v.Error(), c.String())
	}
	base := c.Hash()
	for k := 1; k <= n; k++ {
		torns := []int{0}
		if kinds[k-1] == IOWrite {
			torns = tornModes(lens[k-1], thorough)
		}
		for ti, torn := range torns {
			for abandon := 0; abandon <= 1; abandon++ {
				if abandon == 1 && ti > 1 {
					continue // the abandon variant is run for the outright and the first torn failure only
				}
				fc := c
				fc.Cfg.FailAt, fc.Cfg.Torn = k, torn
				fc.Cfg.Extra = []int{abandon}
				var plan *FaultPlan
				v, ev := guarded(prop, fc, func() (*Violation, map[string]int) {
					v, ev, p := run(fc)
					plan = p
					return v, ev
				})
				if v != nil {
					p := saveFailure(prop, fc, v)
					rt.Fatalf("VIOLATION-CANDIDATE property=%s sig=%q case=%s\n%s\ncase: %s", prop, v.Sig, p, v.Error(), fc.String())
				}
				if plan != nil && !plan.Fired {
					p := saveFailure(prop, fc, &Violation{Prop: prop, Sig: "harness-nondeterminism"})
					rt.Fatalf("harness: call %d of %d never happened in the faulted re-execution (case %s)", k, n, p)
				}
				nontrivial := false
				if plan != nil && plan.FiredOp >= 0 && plan.FiredOp < len(fc.Ops) {
					switch fc.Ops[plan.FiredOp].K {
					case OpSet, OpSetR, OpDel, OpFlush, OpReopen, OpRevert, OpCopyTo:
						nontrivial = len(fc.Ops)-plan.FiredOp > 3
					case OpVisit:
						nontrivial = prop == "C18"
					}
					ev["fault_kind_"+kinds[k-1].String()]++
					if torn > 0 {
						ev["fault_torn_write"]++
					}
				}
				h := base ^ (uint64(k)*0x9E3779B97F4A7C15 + uint64(torn)*0xC2B2AE3D27D4EB4F + uint64(abandon)*0x165667B19E3779F9)
				st.Note(h, ev, nontrivial, func() string { return fc.String() })
			}
		}
	}
}

// faultPrelude builds, in 60% of the histories, a tree of 5-12 items with
// spread priorities that is flushed and re-opened before the generated history
// starts: the following calls then have to load a multi-level tree from the
// file, so that faults can land between two levels of a recursive mutation.
func faultPrelude(rt *rapid.T) []Op {
	if uni(rt, 10, "prelude") >= 6 {
		return nil
	}
	n := 5 + uni(rt, 8, "preluden")
	perm := rapid.Permutation(KeyPool[:14]).Draw(rt, "preludekeys")
	var ops []Op
	for i := 0; i < n; i++ {
		ops = append(ops, Op{K: OpSet, C: 0, Key: perm[i], Val: []byte{byte('A' + i)}, Prio: int32(uni(rt, 1000, "preludeprio"))})
	}
	return append(ops, Op{K: OpFlush}, Op{K: OpReopen, Flag: uni(rt, 2, "preludedrop")})
}

func TestC07(t *testing.T) {
	st := NewStats("C07", c07Rule, append(append([]string{}, commonAssumptions...),
		"Exist and EvictSomeItems have no error result: held to 'no panic, state unchanged' only",
		"partial delivery of a visit before the failing read is not judged, only the returned error",
		"exactly one fault per execution (single-fault enumeration)"))
	st.Extra["counts_units"] = "evaluations are faulted executions; -rapid.checks counts histories"
	histories := 0
	defer func() {
		st.Extra["histories"] = fmt.Sprint(histories)
		if p := outPath(); p != "" {
			st.Write(p)
		}
	}()
	gen := GenCase(profFault)
	rapid.Check(t, func(rt *rapid.T) {
		c := gen.Draw(rt, "case")
		c.Cfg.Mem = false
		c.Ops = append(faultPrelude(rt), c.Ops...)
		histories++
		faultEnumerate(rt, st, "C07", c, RunFault)
	})
}

// TestC18Fault: visits and iterators whose file fails part way must still let
// the producer goroutine exit and release the version it pinned.
func TestC18Fault(t *testing.T) {
	st := NewStats("C18", "fault phase: histories of visits/iterators (all six APIs) over file-backed stores are re-executed with every single StoreFile call failing once; after the failed call (and after every later op) no goroutine of an iterator is left, nothing hangs, and - no snapshot, visit or iterator being alive - every collection's current version has exactly one reference (the pin of the failed walk was released). Non-trivial = the fault fired inside a visit/iterator.", commonAssumptions)
	st.Extra["counts_units"] = "evaluations are faulted executions; -rapid.checks counts histories"
	defer func() {
		if p := outPath(); p != "" {
			st.Write(p)
		}
	}()
	gen := GenCase(profIterFault)
	rapid.Check(t, func(rt *rapid.T) {
		c := gen.Draw(rt, "case")
		c.Cfg.Mem = false
		c.Ops = append(faultPrelude(rt), c.Ops...)
		faultEnumerate(rt, st, "C18", c, RunFault)
	})
}

// TestC09Fault: the append-only / truncate-only-by-FlushRevert rules hold on
// every individual file call also when a file call fails (a failed Flush must
// not "clean up" by truncating, a failed write must not be retried below the
// durable end, ...).
func TestC09Fault(t *testing.T) {
	st := NewStats("C09", "fault phase: C07's single-fault enumeration (every StoreFile call of a generated history fails once; torn writes; retry and abandon variants) with the call-log monitor on: every WriteAt/Truncate the store issues is still attributed and judged as in the main phase (writes only during Flush/Collection.Write and at or beyond the durable end, Truncate only during FlushRevert and only to the end of a root record or zero, durable prefix unchanged). Only monitor violations are reported here. Non-trivial as in C07.", commonAssumptions)
	st.Extra["counts_units"] = "evaluations are faulted executions; -rapid.checks counts histories"
	defer func() {
		if p := outPath(); p != "" {
			st.Write(p)
		}
	}()
	gen := GenCase(profFault)
	rapid.Check(t, func(rt *rapid.T) {
		c := gen.Draw(rt, "case")
		c.Cfg.Mem = false
		c.Cfg.Profile = "C09-fault"
		c.Ops = append(faultPrelude(rt), c.Ops...)
		faultEnumerate(rt, st, "C09", c, RunFault)
	})
}

// TestC19Fault: key-only operations read no value byte also when a file call
// fails and is retried (a "read the whole record instead" retry path would).
func TestC19Fault(t *testing.T) {
	st := NewStats("C19", "fault phase: C07's single-fault enumeration (every StoreFile call of a generated history fails once, retry and abandon variants) with the read log on: every ReadAt issued by a key-only op (GetItem/Min/Max/visit without values, Exist, Len, Set, Delete, GetTotals, evictions), before and after the fault, is intersected with the value byte ranges (independent decoder) of everything flushed so far: must be empty. Only that rule is reported here. Non-trivial as in C07.", commonAssumptions)
	st.Extra["counts_units"] = "evaluations are faulted executions; -rapid.checks counts histories"
	defer func() {
		if p := outPath(); p != "" {
			st.Write(p)
		}
	}()
	gen := GenCase(profLazyFault)
	rapid.Check(t, func(rt *rapid.T) {
		c := gen.Draw(rt, "case")
		c.Cfg.Mem = false
		c.Ops = append(faultPrelude(rt), c.Ops...)
		faultEnumerate(rt, st, "C19", c, RunFault)
	})
}
