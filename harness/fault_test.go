package verifharness

import (
	"fmt"
	"os"
	"testing"

	"pgregory.net/rapid"
)

const c07Rule = "fault enumeration: each rapid-generated history (5-30 ops over SetItem/Set/Delete/Get/GetItem/Min/Max/GetTotals/Exist/Len/visits/evict/Flush/re-open/FlushRevert/CopyTo/block+random visits) is run fault-free to count the N StoreFile calls gkvlite issues, then re-executed once for EVERY k in 1..N with call k failing (reads, Stat, Truncate: outright; writes: outright and after 1 byte, half, all-but-one byte), on the store's file and on CopyTo's destination. Oracle per execution: the API call in progress returns an error (never nil, never a panic/hang); visible contents == model before the call; a copy of the file re-opens to the last flush; the failed call is retried and the rest of the history plus a churn phase must behave exactly as the fault-free run. evaluations = faulted executions; non-trivial = the fault hit a mutation/Flush/open/FlushRevert/CopyTo (not a pure lookup) with >=3 ops still to run; distinct by (history hash, k, torn)."

func TestC07(t *testing.T) {
	st := NewStats("C07", c07Rule, append(append([]string{}, commonAssumptions...),
		"Exist and EvictSomeItems have no error result: held to 'no panic, state unchanged' only",
		"partial delivery of a visit before the failing read is not judged, only the returned error",
		"exactly one fault per execution (single-fault enumeration)"))
	st.Extra["counts_units"] = "evaluations are faulted executions; -rapid.checks counts histories"
	defer func() {
		if p := outPath(); p != "" {
			st.Write(p)
		}
	}()
	gen := GenCase(profFault)
	histories := 0
	rapid.Check(t, func(rt *rapid.T) {
		c := gen.Draw(rt, "case")
		c.Cfg.Mem = false
		histories++
		var n int
		var kinds []IOKind
		var lens []int
		v, _ := guarded("C07", c, func() (*Violation, map[string]int) {
			v, cnt, ks, ls, ev := faultFreeCount(c)
			n, kinds, lens = cnt, ks, ls
			return v, ev
		})
		if v != nil {
			v.Sig = "faultfree:" + v.Sig
			p := saveFailure("C07", c, v)
			rt.Fatalf("VIOLATION-CANDIDATE property=C07 sig=%q case=%s\n%s\ncase: %s", v.Sig, p, v.Error(), c.String())
		}
		base := c.Hash()
		for k := 1; k <= n; k++ {
			torns := []int{0}
			if kinds[k-1] == IOWrite {
				torns = tornModes(lens[k-1], os.Getenv("VERIF_TIER") == "thorough")
			}
			for ti, torn := range torns {
				for abandon := 0; abandon <= 1; abandon++ {
					if abandon == 1 && ti > 1 {
						continue // the abandon variant is run for the outright and the 1-byte failure only
					}
					fc := c
					fc.Cfg.FailAt, fc.Cfg.Torn = k, torn
					fc.Cfg.Extra = []int{abandon}
					var plan *FaultPlan
					v, ev := guarded("C07", fc, func() (*Violation, map[string]int) {
						v, ev, p := RunFault(fc)
						plan = p
						return v, ev
					})
					if v != nil {
						p := saveFailure("C07", fc, v)
						rt.Fatalf("VIOLATION-CANDIDATE property=C07 sig=%q case=%s\n%s\ncase: %s", v.Sig, p, v.Error(), fc.String())
					}
					if !plan.Fired {
						p := saveFailure("C07", fc, &Violation{Prop: "C07", Sig: "harness-nondeterminism"})
						rt.Fatalf("harness: call %d of %d never happened in the faulted re-execution (case %s)", k, n, p)
					}
					nontrivial := false
					if plan.FiredOp >= 0 && plan.FiredOp < len(fc.Ops) {
						switch fc.Ops[plan.FiredOp].K {
						case OpSet, OpSetR, OpDel, OpFlush, OpReopen, OpRevert, OpCopyTo:
							nontrivial = len(fc.Ops)-plan.FiredOp > 3
						}
						ev["fault_kind_"+kinds[k-1].String()]++
						if torn > 0 {
							ev["fault_torn_write"]++
						}
					}
					h := base ^ (uint64(k)*0x9E3779B97F4A7C15 + uint64(torn)*0xC2B2AE3D27D4EB4F + uint64(abandon)*0x165667B19E3779F9)
					st.Note(h, ev, nontrivial, func() string { return fc.String() })
				}
			}
		}
	})
	st.Extra["histories"] = fmt.Sprint(histories)
	_ = os.Stdout
}
