package verifharness

import (
	"fmt"
	"os"
	"testing"

	"pgregory.net/rapid"
)

// runSpec is the rapid property for one history-based property.
func runSpec(t *testing.T, s *Spec) {
	st := NewStats(s.Prop, s.Rule, s.Assumptions)
	gens := []*rapid.Generator[Case]{GenCase(s.Profile)}
	for _, v := range s.Variants {
		gens = append(gens, GenCase(v))
	}
	n := 0
	defer func() {
		if p := outPath(); p != "" {
			if err := st.Write(p); err != nil {
				t.Errorf("writing evidence shard: %v", err)
			}
		}
	}()
	rapid.Check(t, func(rt *rapid.T) {
		n++
		c := gens[n%len(gens)].Draw(rt, "case")
		prepareCase(s, &c, n)
		v, ev := guarded(s.Prop, c, func() (*Violation, map[string]int) { return Run(c, s.Opts) })
		if v != nil {
			p := saveFailure(s.Prop, c, v)
			rt.Fatalf("VIOLATION-CANDIDATE property=%s sig=%q case=%s\n%s\ncase: %s", s.Prop, v.Sig, p, v.Error(), c.String())
		}
		st.Note(c.Hash(), ev, s.NonTrivial(&c, ev), func() string { return c.String() })
	})
}

// prepareCase applies per-spec adjustments that are not drawn (e.g. C17's
// round-robin over callback subsets).
func prepareCase(s *Spec, c *Case, n int) {
	if s.Prop == "C17" {
		c.Cfg.Callbacks = n % 256
	}
}

func specTest(t *testing.T, id string) {
	s := Specs[id]
	if s == nil {
		t.Fatalf("no spec %s", id)
	}
	runSpec(t, s)
}

// TestC02RealFile re-runs the C02 property with every file call mirrored on a
// real os.File (in $TMPDIR, removed after each case): reads and Stat are
// answered by both and compared, so that nothing the checks conclude depends
// on a quirk of the in-memory file (EOF semantics, short reads, truncation).
// A divergence is a harness defect and is reported as such, not as a violation.
func TestC02RealFile(t *testing.T) {
	s := Specs["C02"]
	st := NewStats("C02", "real-file phase: the C02 histories with every StoreFile call mirrored on a real os.File and the answers of both compared (harness self-check of the in-memory file model); same durability oracle.", s.Assumptions)
	defer func() {
		if p := outPath(); p != "" {
			st.Write(p)
		}
	}()
	gen := GenCase(s.Profile)
	opts := s.Opts
	opts.RealFile = true
	rapid.Check(t, func(rt *rapid.T) {
		c := gen.Draw(rt, "case")
		c.Cfg.Mem = false
		v, ev := guarded("C02", c, func() (*Violation, map[string]int) { return Run(c, opts) })
		if v != nil && v.Sig == "harness-memfile-diverges" {
			p := saveFailure("C02", c, v)
			rt.Fatalf("HARNESS-DEFECT (not a violation of the property) %s case=%s", v.Msg, p)
		}
		if v != nil {
			p := saveFailure("C02", c, v)
			rt.Fatalf("VIOLATION-CANDIDATE property=C02 sig=%q case=%s\n%s\ncase: %s", v.Sig, p, v.Error(), c.String())
		}
		ev["real_file_case"]++
		st.Note(c.Hash(), ev, s.NonTrivial(&c, ev), func() string { return c.String() })
	})
}

func TestC01(t *testing.T) { specTest(t, "C01") }
func TestC02(t *testing.T) { specTest(t, "C02") }
func TestC04(t *testing.T) { specTest(t, "C04") }
func TestC06(t *testing.T) { specTest(t, "C06") }
func TestC08(t *testing.T) { specTest(t, "C08") }
func TestC09(t *testing.T) { specTest(t, "C09") }
func TestC10(t *testing.T) { specTest(t, "C10") }
func TestC11(t *testing.T) { specTest(t, "C11") }
func TestC12(t *testing.T) { specTest(t, "C12") }
func TestC13(t *testing.T) { specTest(t, "C13") }
func TestC14(t *testing.T) { specTest(t, "C14") }
func TestC15(t *testing.T) { specTest(t, "C15") }
func TestC18(t *testing.T) { specTest(t, "C18") }
func TestC19(t *testing.T) { specTest(t, "C19") }

// TestReplay re-runs a saved case (VERIF_REPLAY=<file>) without rapid.
func TestReplay(t *testing.T) {
	path := os.Getenv("VERIF_REPLAY")
	if path == "" {
		t.Skip("VERIF_REPLAY not set")
	}
	c, err := LoadCase(path)
	if err != nil {
		t.Fatalf("loading %s: %v", path, err)
	}
	v := ReplayCase(c)
	if v != nil {
		fmt.Printf("REPLAY-VIOLATION property=%s sig=%q\n%s\n", v.Prop, v.Sig, v.Error())
		t.Fatalf("violation reproduced")
	}
	fmt.Printf("REPLAY-OK %s\n", path)
}

// TestMinimize greedily removes ops from a saved failing case while the same
// violation signature persists (VERIF_REPLAY=<file>; writes <file>.min.json).
func TestMinimize(t *testing.T) {
	path := os.Getenv("VERIF_REPLAY")
	if path == "" {
		t.Skip("VERIF_REPLAY not set")
	}
	c, err := LoadCase(path)
	if err != nil {
		t.Fatal(err)
	}
	v := ReplayCase(c)
	if v == nil {
		t.Fatalf("case does not fail")
	}
	sig := v.Sig
	changed := true
	for changed {
		changed = false
		for i := len(c.Ops) - 1; i >= 0; i-- {
			d := c
			d.Ops = append(append([]Op{}, c.Ops[:i]...), c.Ops[i+1:]...)
			if v2 := ReplayCase(d); v2 != nil && v2.Sig == sig {
				c = d
				changed = true
			}
		}
		for i := range c.Ops {
			for j := len(c.Ops[i].Sub) - 1; j >= 0; j-- {
				d := c
				d.Ops = append([]Op{}, c.Ops...)
				o := d.Ops[i]
				o.Sub = append(append([]Op{}, o.Sub[:j]...), o.Sub[j+1:]...)
				d.Ops[i] = o
				if v2 := ReplayCase(d); v2 != nil && v2.Sig == sig {
					c = d
					changed = true
				}
			}
		}
	}
	SaveCase(path+".min.json", c)
	v = ReplayCase(c)
	fmt.Printf("MINIMIZED to %d ops: %s\n%s\n", len(c.Ops), c.String(), v.Error())
}
