package verifharness

import (
	"bytes"
	"fmt"
	"runtime"
	"runtime/debug"
	"sort"
	"strings"
	"sync"
	"sync/atomic"

	g "github.com/cbehopkins/gkvlite"
)

// C05 engine: a cooperative scheduler owned by the harness.
//
// Workers (one mutator, one flusher, 1-3 readers) are goroutines, but exactly
// one runs at a time; control changes hands only at yield points: every
// StoreFile call, every visitor callback and the verifYield hook points inside
// gkvlite.  The schedule is part of the generated case, so a failing
// interleaving is replayable and shrinkable.

type coopEvent struct {
	id       int
	finished bool
}

type coop struct {
	resume   []chan struct{}
	event    chan coopEvent
	cur      int
	sched    []int
	pos      int
	tick     int
	switches int
	points   map[string]int
	active   bool
	onResume func(id int) // called in the resumed worker before it continues
	// mode 1 (priority schedule, after Burckhardt et al.'s PCT): every worker has a
	// priority, the runnable worker with the highest one runs; at each change point
	// (a tick number) the worker that is running drops below everybody else.  This
	// reaches orderings a per-yield random walk practically never produces: one
	// worker parked at a precise yield point while another runs many operations.
	mode    int
	prio    []int
	changes map[int]int
	changesHit int
}

// Yield is called (through MemFile.Yield, gkvlite's VerifYield and visitor
// callbacks) by the worker that currently holds the baton.
func (s *coop) Yield(point string) {
	if !s.active {
		return
	}
	id := s.cur
	s.points[point]++
	s.event <- coopEvent{id, false}
	<-s.resume[id]
	if s.onResume != nil {
		s.onResume(id)
	}
}

func (s *coop) pick(runnable []int, current int) int {
	if s.mode == 1 {
		if s.prio == nil {
			s.prio = make([]int, 8)
			s.changes = map[int]int{}
			for i := range s.prio {
				s.prio[i] = 1000 - i
				if i < len(s.sched) {
					s.prio[i] = 1000 + 8*(s.sched[i]%100) - i
				}
			}
			for i := 6; i < len(s.sched); i++ {
				s.changes[s.sched[i]] = -(i - 5)
			}
		}
		if np, ok := s.changes[s.tick]; ok && current >= 0 && current < len(s.prio) {
			s.prio[current] = np
			s.changesHit++
		}
		best := runnable[0]
		for _, r := range runnable {
			if s.prio[r] > s.prio[best] {
				best = r
			}
		}
		return best
	}
	if s.pos < len(s.sched) {
		i := s.sched[s.pos] % len(runnable)
		s.pos++
		return runnable[i]
	}
	for _, r := range runnable {
		if r == current {
			return current
		}
	}
	return runnable[0]
}

// run executes the workers to completion under the schedule.
func (s *coop) run(workers []func()) {
	n := len(workers)
	s.resume = make([]chan struct{}, n)
	s.event = make(chan coopEvent)
	s.points = map[string]int{}
	runnable := make([]int, n)
	for i := range workers {
		s.resume[i] = make(chan struct{})
		runnable[i] = i
		i := i
		go func() {
			<-s.resume[i]
			if s.onResume != nil {
				s.onResume(i)
			}
			defer func() { s.event <- coopEvent{i, true} }()
			workers[i]()
		}()
	}
	s.active = true
	s.cur = s.pick(runnable, -1)
	s.resume[s.cur] <- struct{}{}
	for {
		ev := <-s.event
		s.tick++
		if ev.finished {
			for k, r := range runnable {
				if r == ev.id {
					runnable = append(runnable[:k], runnable[k+1:]...)
					break
				}
			}
			if len(runnable) == 0 {
				break
			}
		}
		next := s.pick(runnable, ev.id)
		if next != ev.id {
			s.switches++
		}
		s.cur = next
		s.resume[next] <- struct{}{}
	}
	s.active = false
}

// ---------------------------------------------------------------------------

// version is one published state of a collection.
type version struct {
	items      map[string]string // key -> value
	start, end int               // ticks bracketing the mutator op that published it
}

type readRec struct {
	worker int
	op     Op
	s, e   int // window in ticks
	coll   string
	// results
	val     []byte
	present bool
	key     []byte
	n, b    uint64
	seq     []kvp
	snap    map[string][]kvp // Snapshot op: contents per collection
	errs    string
	api     int  // tag of the file calls this op issued (C19 under concurrency)
	keyOnly bool // the op must not read value bytes
	prio    int32
}

type flushRec struct {
	s, e int
	img  []byte
	err  error
}

var schedColls = []string{"a", "b"}

// cloneItems copies a version's contents.
func cloneItems(m map[string]string) map[string]string {
	n := make(map[string]string, len(m))
	for k, v := range m {
		n[k] = v
	}
	return n
}

// candidates returns the indices of versions that may have been current at
// some instant of the window [s,e].
func candidates(vs []version, s, e int) []int {
	var r []int
	for j := range vs {
		if vs[j].start > e {
			continue
		}
		if j+1 < len(vs) && vs[j+1].end < s {
			continue
		}
		r = append(r, j)
	}
	return r
}

func sortedKeysStr(m map[string]string) []string {
	ks := make([]string, 0, len(m))
	for k := range m {
		ks = append(ks, k)
	}
	sort.Strings(ks)
	return ks
}

func seqEqualsVersion(seq []kvp, items map[string]string, keys []string, withVal bool) bool {
	if len(seq) != len(keys) {
		return false
	}
	for i, k := range keys {
		if string(seq[i].k) != k {
			return false
		}
		if withVal && string(seq[i].v) != items[k] {
			return false
		}
	}
	return true
}

// RunSched executes one scheduled concurrent case.
func RunSched(c Case) (*Violation, map[string]int) {
	var v *Violation
	opts := RunOpts{Prop: "C05", NoFinal: true}
	if c.Cfg.Profile == "C19-sched" {
		opts.Prop = "C19"
	}
	var evOut map[string]int
	phaseStarted := false
	opts.After = func(w *World) { phaseStarted = true; v = concurrentPhase(w, c) }
	pre := c
	pre.Cfg.CheckEvery = 0
	pv, ev := Run(pre, opts)
	evOut = ev
	if pv != nil {
		if c.Cfg.Profile == "C19-sched" {
			return nil, evOut // the pre-state is judged by ./check C05 and the history checks
		}
		if phaseStarted {
			pv.Sig = "concurrent-phase:" + pv.Sig // raised outside the workers (final reads, closing the shared snapshot)
		} else if pv.Sig != "panic" || v == nil {
			pv.Sig = "pre-state:" + pv.Sig
		}
		return pv, evOut
	}
	return v, evOut
}

func concurrentPhase(w *World, c Case) (viol *Violation) {
	fail := func(sig, f string, a ...interface{}) *Violation {
		return &Violation{Prop: "C05", Sig: sig, OpIdx: len(c.Ops), Msg: fmt.Sprintf(f, a...)}
	}
	st := w.orig.st
	if w.file == nil {
		return nil
	}
	// both collections exist before the concurrent phase starts
	vers := map[string][]version{}
	for _, name := range schedColls {
		mc := w.orig.m.Colls[name]
		if mc == nil {
			st.SetCollection(name, nil)
			mc = &MColl{Items: map[string]MItem{}}
			w.orig.m.Colls[name] = mc
		}
		items := map[string]string{}
		for k, it := range mc.Items {
			items[k] = string(it.Val)
		}
		vers[name] = []version{{items: items}}
	}
	for name := range w.orig.m.Colls {
		if name != "a" && name != "b" {
			return nil // pre-state profiles only use a and b
		}
	}

	// value byte ranges of everything flushed before the concurrent phase (the file
	// is append-only, so they stay valid): key-only reader ops must not read them
	lz := newLazyState()
	for _, du := range w.durable {
		lz.addDurable(w.file.B, du)
	}
	logStart := len(w.file.Log)
	apiOf := make([]int, 8)
	nextAPI := 1 << 20
	// par: the real-parallel engine (C05-par): the same workers as goroutines that
	// really run side by side over a mutex-protected file; windows are taken from an
	// atomic clock instead of the scheduler's tick.
	par := c.Cfg.Profile == "C05-par"
	rep := 1
	if par && len(c.Cfg.Extra) > 0 && c.Cfg.Extra[0] > 1 {
		rep = c.Cfg.Extra[0]
	}
	s := &coop{sched: c.Cfg.Sched, mode: c.Cfg.SchedMode}
	var clock int64
	var mu sync.Mutex
	now := func() int {
		if par {
			return int(atomic.AddInt64(&clock, 1))
		}
		return s.tick
	}
	yield := func(point string) {
		if par {
			runtime.Gosched()
			return
		}
		s.Yield(point)
	}
	locked := func(f func()) {
		if par {
			mu.Lock()
			defer mu.Unlock()
		}
		f()
	}
	var presnap *g.Store
	if par {
		// a snapshot taken before the phase and shared by all readers (ops with S == 1
		// read through it): it must show the initial version whatever happens meanwhile
		presnap = st.Snapshot()
		defer presnap.Close()
		w.file.Mu = &sync.Mutex{}
		w.file.KeepLog = false
		var n uint32
		g.VerifYield = func(string) {
			if atomic.AddUint32(&n, 1)%3 == 0 {
				runtime.Gosched()
			}
		}
		defer func() { g.VerifYield = nil }()
	} else {
		s.onResume = func(id int) {
			if id < len(apiOf) {
				w.file.CurAPI = apiOf[id]
			}
		}
		w.file.Yield = s.Yield
		g.VerifYield = s.Yield
		defer func() { g.VerifYield = nil; w.file.Yield = nil }()
	}

	var reads []*readRec
	var flushes []*flushRec
	var panics []string
	var mutErrs []string
	guard := func(id int, f func()) func() {
		return func() {
			defer func() {
				if r := recover(); r != nil {
					msg := fmt.Sprintf("worker %d panicked: %v\n%s", id, r, trimStack(debug.Stack()))
					locked(func() { panics = append(panics, msg) })
				}
			}()
			f()
		}
	}
	coll := func(ci int) (string, *g.Collection) {
		name := schedColls[ci%2]
		return name, st.GetCollection(name)
	}
	var workers []func()
	// worker 0: mutator
	mutOps := []Op{}
	if len(c.Cfg.Workers) > 0 {
		mutOps = c.Cfg.Workers[0]
	}
	workers = append(workers, guard(0, func() {
		for round := 0; round < rep; round++ {
			for i, op := range mutOps {
				if op.K == OpSetColl {
					// the mutating goroutine creates a further collection (a name never used
					// before: existing handles are neither replaced nor removed) beside readers
					// that look collections up for every call
					st.SetCollection(fmt.Sprintf("c%d.%d", round, i), nil)
					continue
				}
				if op.K == OpRmColl {
					// replace / remove a third collection that no reader touches.  Only
					// generated for cases without Snapshot readers and without a flusher:
					// those take references on every handle of the map they looked up, and
					// nothing promises that for a handle that is being retired concurrently.
					if (round+i)%3 == 0 {
						st.RemoveCollection("c")
					} else {
						st.SetCollection("c", nil)
					}
					continue
				}
				name, col := coll(op.C)
				cur := vers[name][len(vers[name])-1]
				t0 := now()
				switch op.K {
				case OpSet:
					val := fmt.Sprintf("m%d", i)
					if rep > 1 {
						val = fmt.Sprintf("m%d.%d", round, i)
					}
					err := col.SetItem(&g.Item{Key: append([]byte(nil), op.Key...), Val: []byte(val), Priority: op.Prio})
					if err != nil {
						msg := fmt.Sprintf("mutator op %d %s: %v", i, op.String(), err)
						locked(func() { mutErrs = append(mutErrs, msg) })
						continue
					}
					ni := cloneItems(cur.items)
					ni[string(op.Key)] = val
					vers[name] = append(vers[name], version{items: ni, start: t0, end: now()})
				case OpDel:
					was, err := col.Delete(op.Key)
					if err != nil {
						msg := fmt.Sprintf("mutator op %d %s: %v", i, op.String(), err)
						locked(func() { mutErrs = append(mutErrs, msg) })
						continue
					}
					_, had := cur.items[string(op.Key)]
					if was != had {
						msg := fmt.Sprintf("mutator op %d %s: wasDeleted=%v but the key was present=%v", i, op.String(), was, had)
						locked(func() { mutErrs = append(mutErrs, msg) })
					}
					if had {
						ni := cloneItems(cur.items)
						delete(ni, string(op.Key))
						vers[name] = append(vers[name], version{items: ni, start: t0, end: now()})
					}
				case OpEvict:
					col.EvictSomeItems()
				}
			}
		}
	}))
	// worker 1: flusher
	nFlush := 0
	if len(c.Cfg.Workers) > 1 {
		nFlush = len(c.Cfg.Workers[1])
	}
	workers = append(workers, guard(1, func() {
		for i := 0; i < nFlush; i++ {
			fr := &flushRec{s: now()}
			fr.err = st.Flush()
			fr.e = now()
			fr.img = w.file.Image() // only the flusher writes to the file: the image is what this Flush left
			locked(func() { flushes = append(flushes, fr) })
			if par {
				runtime.Gosched()
			}
		}
	}))
	// workers 2..: readers
	for wi := 2; wi < len(c.Cfg.Workers); wi++ {
		wi := wi
		ops := c.Cfg.Workers[wi]
		workers = append(workers, guard(wi, func() {
			for round := 0; round < rep; round++ {
				for _, op := range ops {
					name, col := coll(op.C)
					viaSnap := par && op.S == 1 && presnap != nil && op.K != OpSnap
					if viaSnap {
						col = presnap.GetCollection(name)
					}
					r := &readRec{worker: wi, op: op, coll: name, s: now()}
					if !par {
						nextAPI++
						r.api = nextAPI
						if wi < len(apiOf) {
							apiOf[wi] = r.api
						}
						w.file.CurAPI = r.api
					}
					switch op.K {
					case OpGetItem: // key-only lookup
						r.keyOnly = true
						it, err := col.GetItem(op.Key, false)
						if err != nil {
							r.errs = err.Error()
						}
						if it != nil {
							r.present = true
							r.key = append([]byte(nil), it.Key...)
							r.prio = it.Priority
							if it.Val != nil {
								r.val = append([]byte{}, it.Val...)
							}
						}
					case OpExist:
						r.keyOnly = true
						r.present = col.Exist(op.Key)
					case OpGet:
						val, err := col.Get(op.Key)
						if err != nil {
							r.errs = err.Error()
						}
						r.val, r.present = val, val != nil
					case OpMin, OpMax:
						var it *g.Item
						var err error
						if op.K == OpMin {
							it, err = col.MinItem(true)
						} else {
							it, err = col.MaxItem(true)
						}
						if err != nil {
							r.errs = err.Error()
						}
						if it != nil {
							r.present = true
							r.key = append([]byte(nil), it.Key...)
							r.val = append([]byte(nil), it.Val...)
						}
					case OpTotals:
						n, b, err := col.GetTotals()
						if err != nil {
							r.errs = err.Error()
						}
						r.n, r.b = n, b
					case OpVisit:
						vis := func(i *g.Item) bool {
							r.seq = append(r.seq, kvp{k: append([]byte(nil), i.Key...), v: append([]byte(nil), i.Val...)})
							if par {
								// visitor callbacks may call read operations on the same store
								switch (len(r.seq) + wi) % 4 {
								case 0:
									_ = col.AllocStats()
								case 1:
									_ = st.GetCollectionNames()
								case 2:
									st.Stats(map[string]uint64{})
								}
							}
							yield("visit")
							return true
						}
						var err error
						wv := op.N != 1 // N==1: a key-only visit
						r.keyOnly = !wv
						if op.Flag%2 == 0 {
							err = col.VisitItemsAscend(op.Key, wv, vis)
						} else {
							err = col.VisitItemsDescend(op.Key, wv, vis)
						}
						if err != nil {
							r.errs = err.Error()
						}
					case OpSnap:
						sn := st.Snapshot()
						r.e = now() // the window of a Snapshot is the Snapshot() call itself
						r.snap = map[string][]kvp{}
						for _, cn := range schedColls {
							sc := sn.GetCollection(cn)
							if sc == nil {
								r.errs = "snapshot lacks collection " + cn
								continue
							}
							var seq []kvp
							err := sc.VisitItemsAscend([]byte{}, true, func(i *g.Item) bool {
								seq = append(seq, kvp{k: append([]byte(nil), i.Key...), v: append([]byte(nil), i.Val...)})
								yield("visit")
								return true
							})
							if err != nil {
								r.errs = err.Error()
							}
							r.snap[cn] = seq
						}
						sn.Close()
					}
					if op.K != OpSnap {
						r.e = now()
					}
					if viaSnap {
						r.s, r.e = 0, 0 // only the initial version is a candidate
					}
					if !par {
						if wi < len(apiOf) {
							apiOf[wi] = 0
						}
						w.file.CurAPI = 0
					}
					locked(func() { reads = append(reads, r) })
				}
			}
		}))
	}

	if par {
		var wg sync.WaitGroup
		start := make(chan struct{})
		for _, f := range workers {
			wg.Add(1)
			go func(f func()) {
				defer wg.Done()
				<-start
				f()
			}(f)
		}
		close(start)
		wg.Wait()
		w.file.Mu = nil
		w.ev["par_runs"]++
	} else {
		s.run(workers)
	}
	w.ev["sched_switches"] = s.switches
	if s.mode == 1 {
		w.ev["sched_priority_mode"] = 1
		w.ev["sched_change_points_hit"] = s.changesHit
	}
	w.ev["sched_yields"] = s.tick
	for p, n := range s.points {
		w.ev["yield_"+p] = n
	}

	if c.Cfg.Profile == "C19-sched" {
		// C19's concurrent phase judges the read log only (everything else is C05's business)
		fail = func(sig, f string, a ...interface{}) *Violation {
			return &Violation{Prop: "C19", Sig: sig, OpIdx: len(c.Ops), Msg: fmt.Sprintf(f, a...)}
		}
		// C19 under concurrency: no key-only reader op read a value byte of the pre-state
		byAPI := map[int]*readRec{}
		for _, r := range reads {
			if r.keyOnly {
				byAPI[r.api] = r
			}
		}
		if len(byAPI) > 0 && logStart <= len(w.file.Log) {
			for _, rec := range w.file.Log[logStart:] {
				if rec.Kind != IORead {
					continue
				}
				r := byAPI[rec.API]
				if r == nil {
					continue
				}
				w.ev["keyonly_reads_checked"]++
				if rg, hit := lz.hits(rec.Off, rec.Len+rec.Rep); hit {
					return fail("value-read-by-key-only-op", "reader %d %s (key-only) read file bytes [%d,%d), which intersect the value bytes [%d,%d) of a stored item",
						r.worker, r.op.String(), rec.Off, rec.Off+int64(rec.Len), rg[0], rg[1])
				}
			}
		}

		return nil
	}
	// ---- post-hoc validation against the complete version log ----
	if len(panics) > 0 {
		return fail("panic", "%s", panics[0])
	}
	if len(mutErrs) > 0 {
		return fail("lost-update", "the single mutator's call failed: %s", mutErrs[0])
	}
	overlapping := 0
	for _, r := range reads {
		if r.errs != "" {
			return fail("reader-error", "reader %d %s returned an error: %s", r.worker, r.op.String(), r.errs)
		}
		check := func(name string, seq []kvp, s0, e0 int, what string, match func(items map[string]string) bool) *Violation {
			vs := vers[name]
			cs := candidates(vs, s0, e0)
			for _, j := range cs {
				if match(vs[j].items) {
					return nil
				}
			}
			var desc []string
			for _, j := range cs {
				desc = append(desc, fmt.Sprintf("V%d%v", j, sortedKV(vs[j].items)))
			}
			return fail("inconsistent-read", "reader %d %s on %q (window ticks %d..%d) returned %s, which matches none of the versions current in that window: %s",
				r.worker, r.op.String(), name, s0, e0, what, strings.Join(desc, " | "))
		}
		if len(candidates(vers[r.coll], r.s, r.e)) > 1 {
			overlapping++
		}
		var v *Violation
		switch r.op.K {
		case OpGet:
			v = check(r.coll, nil, r.s, r.e, fmt.Sprintf("%s", qb(r.val)), func(items map[string]string) bool {
				val, ok := items[string(r.op.Key)]
				return ok == r.present && (!ok || val == string(r.val))
			})
		case OpGetItem, OpExist:
			v = check(r.coll, nil, r.s, r.e, fmt.Sprintf("present=%v value %s", r.present, qb(r.val)), func(items map[string]string) bool {
				val, ok := items[string(r.op.Key)]
				if ok != r.present {
					return false
				}
				return !ok || r.val == nil || val == string(r.val)
			})
		case OpMin, OpMax:
			v = check(r.coll, nil, r.s, r.e, fmt.Sprintf("%s=%s", qb(r.key), qb(r.val)), func(items map[string]string) bool {
				ks := sortedKeysStr(items)
				if len(ks) == 0 {
					return !r.present
				}
				k := ks[0]
				if r.op.K == OpMax {
					k = ks[len(ks)-1]
				}
				return r.present && k == string(r.key) && items[k] == string(r.val)
			})
		case OpTotals:
			v = check(r.coll, nil, r.s, r.e, fmt.Sprintf("(%d items, %d bytes)", r.n, r.b), func(items map[string]string) bool {
				var b uint64
				for k, val := range items {
					b += uint64(len(k) + len(val))
				}
				return uint64(len(items)) == r.n && b == r.b
			})
		case OpVisit:
			v = check(r.coll, r.seq, r.s, r.e, "sequence "+seqKV(r.seq), func(items map[string]string) bool {
				var keys []string
				for _, k := range sortedKeysStr(items) {
					c := bytes.Compare([]byte(k), r.op.Key)
					if r.op.Flag%2 == 0 && c >= 0 {
						keys = append(keys, k)
					}
					if r.op.Flag%2 == 1 && c < 0 {
						keys = append([]string{k}, keys...)
					}
				}
				return seqEqualsVersion(r.seq, items, keys, !r.keyOnly)
			})
		case OpSnap:
			for _, cn := range schedColls {
				seq := r.snap[cn]
				v = check(cn, seq, r.s, r.e, "snapshot contents "+seqKV(seq), func(items map[string]string) bool {
					return seqEqualsVersion(seq, items, sortedKeysStr(items), true)
				})
				if v != nil {
					break
				}
			}
		}
		if v != nil {
			return v
		}
	}
	w.ev["reads_overlapping_mutation"] = overlapping
	// flushes: each captured image re-opens to versions current during the flush, taken in name order
	for fi, fr := range flushes {
		if fr.err != nil {
			return fail("flush-error", "concurrent Flush %d returned %v", fi, fr.err)
		}
		fs, err := g.NewStore(FileFromImage(fr.img))
		if err != nil {
			return fail("flush-reopen", "image captured after concurrent Flush %d does not open: %v", fi, err)
		}
		type cand struct{ lo, hi int }
		var perColl [][]cand
		for _, cn := range schedColls {
			col := fs.GetCollection(cn)
			if col == nil {
				return fail("flush-missing-collection", "image after concurrent Flush %d lacks collection %q", fi, cn)
			}
			seq, err := scanAll(fs, col, true, nil)
			if err != nil {
				return fail("flush-read", "image after concurrent Flush %d: %v", fi, err)
			}
			vs := vers[cn]
			var cs []cand
			for _, j := range candidates(vs, fr.s, fr.e) {
				if seqEqualsVersion(seq, vs[j].items, sortedKeysStr(vs[j].items), true) {
					lo, hi := vs[j].start, 1<<30
					if j+1 < len(vs) {
						hi = vs[j+1].end
					}
					if lo < fr.s {
						lo = fr.s
					}
					if hi > fr.e {
						hi = fr.e
					}
					cs = append(cs, cand{lo, hi})
				}
			}
			if len(cs) == 0 {
				var desc []string
				for _, j := range candidates(vs, fr.s, fr.e) {
					desc = append(desc, fmt.Sprintf("V%d%v", j, sortedKV(vs[j].items)))
				}
				return fail("flush-not-a-version", "concurrent Flush %d (ticks %d..%d) persisted %q as %s, which is none of the versions current during the Flush: %s",
					fi, fr.s, fr.e, cn, seqKV(seq), strings.Join(desc, " | "))
			}
			perColl = append(perColl, cs)
		}
		// name order: capture instants p_a <= p_b with p_c inside a candidate interval
		feasible := false
		for _, ca := range perColl[0] {
			for _, cb := range perColl[1] {
				pa := ca.lo
				pb := cb.lo
				if pb < pa {
					pb = pa
				}
				if pa <= ca.hi && pb <= cb.hi {
					feasible = true
				}
			}
		}
		if !feasible {
			return fail("flush-order", "concurrent Flush %d persisted collection \"b\" in a state that was already superseded when collection \"a\"'s persisted state became current (a: %v, b: %v; tick intervals)", fi, perColl[0], perColl[1])
		}
		fs.Close()
		w.ev["flush_validated"]++
		if len(vers["b"]) > 1 || len(vers["a"]) > 1 {
			w.ev["flush_with_mutations"]++
		}
	}
	// final contents == last version
	for _, cn := range schedColls {
		last := vers[cn][len(vers[cn])-1]
		seq, err := scanAll(st, st.GetCollection(cn), true, nil)
		if err != nil {
			return fail("final-read", "%v", err)
		}
		if !seqEqualsVersion(seq, last.items, sortedKeysStr(last.items), true) {
			return fail("lost-update", "after all workers finished collection %q holds %s, the mutator's last version is %v", cn, seqKV(seq), sortedKV(last.items))
		}
	}
	w.ev["versions"] = len(vers["a"]) + len(vers["b"]) - 2
	w.ev["reads"] = len(reads)
	return nil
}

func sortedKV(m map[string]string) []string {
	var r []string
	for _, k := range sortedKeysStr(m) {
		r = append(r, fmt.Sprintf("%s=%s", qb([]byte(k)), m[k]))
	}
	return r
}

func seqKV(seq []kvp) string {
	var p []string
	for i, e := range seq {
		if i > 16 {
			p = append(p, "...")
			break
		}
		p = append(p, fmt.Sprintf("%s=%s", qb(e.k), e.v))
	}
	return "[" + strings.Join(p, " ") + "]"
}

// RunParLoop re-executes a real-parallel case until it fails or n runs passed
// (a schedule-dependent failure cannot be replayed exactly; it is re-searched).
func RunParLoop(c Case, n int) *Violation {
	for i := 0; i < n; i++ {
		if v, _ := RunSched(c); v != nil {
			v.Msg = fmt.Sprintf("(real-parallel run %d of the saved case) %s", i+1, v.Msg)
			return v
		}
	}
	return nil
}

func init() {
	replayers["C05"] = func(c Case) *Violation {
		if c.Cfg.Profile == "C05-par" {
			return RunParLoop(c, 400)
		}
		v, _ := RunSched(c)
		return v
	}
	replayers["C19"] = func(c Case) *Violation {
		if c.Cfg.Profile == "C19-sched" {
			v, _ := RunSched(c)
			return v
		}
		v, _ := Run(c, Specs["C19"].Opts)
		return v
	}
}
