package verifharness

import "os"

// C17: behaviourally neutral callbacks.  All 2^8 callback subsets are
// enumerated round-robin over generated histories; the oracles of C01, C02,
// C06 and C14 stay on, and the file produced must be byte-identical to the
// file produced by the same history without callbacks.

var profCb = &Profile{
	Name: "C17-callbacks", MinOps: 3, MaxOps: 40, NColls: 3, MemPct: 10, Cmps: true, BigVals: true, BigKeys: true, EndOnly: 40, Snaps: true,
	Kinds: []wk{{OpSet, 30}, {OpSetR, 3}, {OpDel, 10}, {OpGet, 6}, {OpGetItem, 4}, {OpMin, 2}, {OpMax, 2}, {OpTotals, 2}, {OpVisit, 10},
		{OpFlush, 12}, {OpEvict, 8}, {OpReopen, 7}, {OpSetColl, 3}, {OpRmColl, 1}, {OpExist, 1}, {OpCopyTo, 2}, {OpSnap, 2}, {OpSnapClose, 2},
		{OpLen, 1}, {OpBlock, 1}, {OpRevert, 1}, {OpBadSet, 3}, {OpSet, 3}, {OpSnapRev, 2}, {OpMisc, 1}},
}

const c17Rule = "all 256 subsets of {ItemAlloc, ItemAddRef/DecRef, ItemValLength, ItemValWrite (chunked), ItemValRead (chunked), BeforeItemWrite, AfterItemRead, KeyCompareForCollection} are enumerated round-robin (subset = case number mod 256) over rapid-generated histories (lookups, range visits through all six APIs, Flush, evict, re-open, comparators, big keys/values); oracles of C01/C02/C06/C14 stay on (reference map after every op, probe re-open after every op, range sequences, independent decoder after every Flush) and the final file image must be byte-identical to the image the same history produces with no callbacks. Non-trivial = >=2 callbacks installed, at least one of them actually invoked, and the history contains a flush plus an effective evict or re-open."

func popcount(x int) int {
	n := 0
	for ; x != 0; x &= x - 1 {
		n++
	}
	return n
}

func init() {
	s := &Spec{Prop: "C17", Profile: profCb, Opts: RunOpts{Prop: "C17", Probe: true, Decode: true, Lazy: true},
		NonTrivial: func(c *Case, ev map[string]int) bool {
			invoked := any(ev, "cb_itemalloc", "cb_vallength", "cb_valwrite", "cb_valread", "cb_beforewrite", "cb_afterread", "cb_keycompare")
			return popcount(c.Cfg.Callbacks) >= 2 && invoked && has(ev, "flush") && any(ev, "evict_effective", "reopen")
		},
		Rule: c17Rule}
	s.Assumptions = append(append([]string{}, commonAssumptions...), "neutral callbacks as described in the property: same bytes, possibly chunked; identity hooks; the comparator the collection was created with")
	Specs["C17"] = s
	replayers["C17"] = func(c Case) *Violation {
		if c.Cfg.FailAt > 0 {
			v, _, _ := runC17Fault(c)
			return v
		}
		return RunC17(c)
	}
}

// RunC17 runs the case with its callback subset and without callbacks and
// compares the resulting file images.
func RunC17(c Case) *Violation {
	v, _ := runC17(c)
	return v
}

func runC17(c Case) (*Violation, map[string]int) {
	opts := Specs["C17"].Opts
	var img1, img2 []byte
	opts.After = func(w *World) {
		if w.file != nil {
			img1 = w.file.Image()
		}
	}
	v1, ev := Run(c, opts)
	plain := c
	plain.Cfg.Callbacks = 0
	opts.After = func(w *World) {
		if w.file != nil {
			img2 = w.file.Image()
		}
	}
	v2, _ := Run(plain, opts)
	// C17 is a differential property: it is violated when installing neutral
	// callbacks changes an outcome.  A failure that shows up identically without
	// callbacks is some other property's business and is not reported here.
	switch {
	case v1 != nil && v2 == nil:
		v1.Msg = "with callback subset " + itoa(c.Cfg.Callbacks) + " installed (and not without callbacks): " + v1.Msg
		return v1, ev
	case v1 == nil && v2 != nil:
		v2.Sig = "only-without-callbacks:" + v2.Sig
		v2.Msg = "the same history fails WITHOUT callbacks but passes with subset " + itoa(c.Cfg.Callbacks) + ": " + v2.Msg
		return v2, ev
	case v1 != nil && v2 != nil:
		ev["fails_with_and_without_callbacks"]++
		return nil, ev
	}
	if string(img1) != string(img2) {
		if d := os.Getenv("VERIF_DUMP"); d != "" {
			os.WriteFile(d+"/c17-with.img", img1, 0644)
			os.WriteFile(d+"/c17-without.img", img2, 0644)
		}
		i := 0
		for i < len(img1) && i < len(img2) && img1[i] == img2[i] {
			i++
		}
		return &Violation{Prop: "C17", Sig: "file-differs", OpIdx: len(c.Ops),
			Msg: "the file written with callbacks installed differs from the file written without them (sizes " +
				itoa(len(img1)) + " vs " + itoa(len(img2)) + ", first difference at offset " + itoa(i) + ")"}, ev
	}
	if img1 != nil {
		ev["file_identical_to_callback_free_run"]++
	}
	return nil, ev
}

// runC17Fault runs one faulted execution with the case's callback subset and,
// if it fails, the same execution without callbacks: only a difference counts.
func runC17Fault(fc Case) (*Violation, map[string]int, *FaultPlan) {
	v1, ev, plan := RunFault(fc)
	if v1 == nil {
		return nil, ev, plan
	}
	plain := fc
	plain.Cfg.Callbacks = 0
	v2, _, _ := RunFault(plain)
	if v2 != nil {
		ev["fails_with_and_without_callbacks"]++
		return nil, ev, plan
	}
	v1.Msg = "with callback subset " + itoa(fc.Cfg.Callbacks) + " installed (the same faulted execution passes without callbacks): " + v1.Msg
	return v1, ev, plan
}

func itoa(i int) string {
	if i == 0 {
		return "0"
	}
	neg := i < 0
	if neg {
		i = -i
	}
	var b []byte
	for i > 0 {
		b = append([]byte{byte('0' + i%10)}, b...)
		i /= 10
	}
	if neg {
		b = append([]byte{'-'}, b...)
	}
	return string(b)
}
