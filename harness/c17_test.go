package verifharness

import (
	"testing"

	"pgregory.net/rapid"
)

func TestC17(t *testing.T) {
	s := Specs["C17"]
	st := NewStats("C17", s.Rule, s.Assumptions)
	defer func() {
		if p := outPath(); p != "" {
			st.Write(p)
		}
	}()
	gen := GenCase(s.Profile)
	n := 0
	rapid.Check(t, func(rt *rapid.T) {
		c := gen.Draw(rt, "case")
		c.Cfg.Callbacks = n % 256
		n++
		v, ev := guarded("C17", c, func() (*Violation, map[string]int) { return runC17(c) })
		if v != nil {
			p := saveFailure("C17", c, v)
			rt.Fatalf("VIOLATION-CANDIDATE property=C17 sig=%q case=%s\n%s\ncase: %s", v.Sig, p, v.Error(), c.String())
		}
		ev["cb_subset_size_"+itoa(popcount(c.Cfg.Callbacks))]++
		st.Note(c.Hash(), ev, s.NonTrivial(&c, ev), func() string { return c.String() })
	})
}
