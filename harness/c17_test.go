package verifharness

import (
	"testing"

	"pgregory.net/rapid"
)

func TestC17(t *testing.T) {
	s := Specs["C17"]
	st := NewStats("C17", s.Rule, s.Assumptions)
	defer func() {
		if p := outPath(); p != "" {
			st.Write(p)
		}
	}()
	gen := GenCase(s.Profile)
	n := 0
	rapid.Check(t, func(rt *rapid.T) {
		c := gen.Draw(rt, "case")
		c.Cfg.Callbacks = n % 256
		// the callback-free reference run re-installs comparators with SetCollection
		// after every load; KeyCompareForCollection is installed only when its bit is set
		c.Cfg.CmpViaSet = true
		n++
		v, ev := guarded("C17", c, func() (*Violation, map[string]int) { return runC17(c) })
		if v != nil {
			p := saveFailure("C17", c, v)
			rt.Fatalf("VIOLATION-CANDIDATE property=C17 sig=%q case=%s\n%s\ncase: %s", v.Sig, p, v.Error(), c.String())
		}
		ev["cb_subset_size_"+itoa(popcount(c.Cfg.Callbacks))]++
		st.Note(c.Hash(), ev, s.NonTrivial(&c, ev), func() string { return c.String() })
	})
}

// TestC17Fault: the single-fault enumeration of C07 under drawn callback
// subsets; a faulted execution that fails with callbacks installed but passes
// without them violates C17.
func TestC17Fault(t *testing.T) {
	s := Specs["C17"]
	st := NewStats("C17", "fault phase: C07's single-fault enumeration (every StoreFile call of a generated history fails once, torn writes, retry/abandon variants) run with a drawn non-empty callback subset installed; an execution that violates the fault oracle with the callbacks but not without them is a violation. Non-trivial as in C07.", s.Assumptions)
	st.Extra["counts_units"] = "evaluations are faulted executions; -rapid.checks counts histories"
	defer func() {
		if p := outPath(); p != "" {
			st.Write(p)
		}
	}()
	gen := GenCase(profFault)
	rapid.Check(t, func(rt *rapid.T) {
		c := gen.Draw(rt, "case")
		c.Cfg.Mem = false
		c.Cfg.Profile = "C17-fault"
		c.Cfg.CmpViaSet = true
		c.Cfg.Callbacks = (1 + uni(rt, 255, "callbacks")) &^ CbRefCount // uniform over the subsets (rapid.IntRange is biased towards small values)
		if c.Cfg.Callbacks == 0 {
			c.Cfg.Callbacks = CbAfterRead
		}
		faultEnumerate(rt, st, "C17", c, runC17Fault)
	})
}
