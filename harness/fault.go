package verifharness

// Single-fault enumeration over generated histories (C07; reused by the fault
// phases of C17 and C18).
//
// A history is first executed fault-free to count the StoreFile calls N that
// gkvlite issues on behalf of API calls; it is then re-executed once per
// k in 1..N with call k failing (for writes additionally with torn lengths).
// World.call classifies every API call against the plan.

var profFault = &Profile{
	Name: "C07-fault", MinOps: 5, MaxOps: 30, NColls: 2, BigVals: true, EndOnly: 100, NoPrelude: 1, NoGiant: true, Cmps: true, Snaps: true,
	Kinds: []wk{{OpSet, 30}, {OpSetR, 2}, {OpDel, 10}, {OpGet, 5}, {OpGetItem, 4}, {OpMin, 2}, {OpMax, 1}, {OpTotals, 2}, {OpExist, 1}, {OpLen, 1},
		{OpVisit, 8}, {OpEvict, 7}, {OpFlush, 12}, {OpReopen, 7}, {OpRevert, 3}, {OpCopyTo, 3}, {OpBlock, 1}, {OpRandom, 1}, {OpDel, 1},
		{OpSetColl, 5}, {OpRmColl, 1}, {OpWrite, 2}, {OpSnap, 2}, {OpSnapClose, 1}},
}

// profLazyFault: histories for the fault phase of C19 (no FlushRevert: the value
// byte ranges of reverted flushes would go stale).
var profLazyFault = &Profile{
	Name: "C19-lazyfault", MinOps: 5, MaxOps: 30, NColls: 2, BigVals: true, EndOnly: 100, NoPrelude: 1, NoGiant: true, Cmps: true,
	Kinds: []wk{{OpSet, 26}, {OpSetR, 2}, {OpDel, 10}, {OpGet, 5}, {OpGetItem, 10}, {OpMin, 4}, {OpMax, 3}, {OpTotals, 2}, {OpExist, 4}, {OpLen, 2},
		{OpVisit, 10}, {OpEvict, 9}, {OpFlush, 12}, {OpReopen, 8}},
}

// profIterFault: histories for the fault phase of C18 (visits and iterators
// through all six APIs over file-backed stores).
var profIterFault = &Profile{
	Name: "C18-iterfault", MinOps: 5, MaxOps: 24, NColls: 2, EndOnly: 100, NoPrelude: 1,
	Kinds: []wk{{OpSet, 34}, {OpDel, 6}, {OpFlush, 12}, {OpEvict, 8}, {OpReopen, 8}, {OpVisit, 30}, {OpLen, 2}, {OpSet, 2}},
}

// FreeCheck adds the hook invariants (no live node freed, zeroed or carrying a
// stale reclaim mark) after every op: a failed call that leaves marks behind is
// then seen at once instead of only when the node is recycled much later.
var faultOpts = RunOpts{Prop: "C07", FreeCheck: true, RevertPoints: true}

// faultOptsFor returns the oracles active during the fault enumeration of a property.
func faultOptsFor(prop string) RunOpts {
	switch prop {
	case "C18":
		return RunOpts{Prop: "C18", RefsQuiescent: true, FreeCheck: true}
	case "C17":
		return RunOpts{Prop: "C17"}
	case "C09":
		return RunOpts{Prop: "C09", Monitor: true, RevertPoints: true}
	case "C19":
		return RunOpts{Prop: "C19", Lazy: true}
	}
	return faultOpts
}

func propOfProfile(profile string) string {
	if len(profile) >= 3 {
		return profile[:3]
	}
	return "C07"
}

// faultFreeCount runs the history without faults and returns the number of
// countable file calls, their kinds and requested lengths (index k-1 = call k).
func faultFreeCount(c Case, opts RunOpts) (v *Violation, n int, kinds []IOKind, lens []int, ev map[string]int) {
	plan := &FaultPlan{}
	plan.OnCall = func(k IOKind, l int) { kinds = append(kinds, k); lens = append(lens, l) }
	opts.Plan = plan
	v, ev = Run(c, opts)
	return v, plan.Calls, kinds, lens, ev
}

// tornModes lists the torn variants for a failing write of n bytes: 0 = nothing
// reaches the file; 1/2/3 = one byte / half / all but one; 10+j = exactly j
// bytes.  The thorough tier tries every length of writes up to 64 bytes.
func tornModes(n int, thorough bool) []int {
	if thorough && n <= 64 {
		ms := []int{0}
		for j := 1; j < n; j++ {
			ms = append(ms, 10+j)
		}
		return ms
	}
	if thorough {
		return []int{0, 1, 2, 3, 10 + 15, 10 + 16, 10 + 17, 10 + n/3, 10 + 2*n/3}
	}
	return []int{0, 1, 2, 3}
}

// RunFault executes one faulted run described by c.Cfg.FailAt / c.Cfg.Torn
// (Cfg.Extra[0]==1: the failed call is abandoned instead of retried).
func RunFault(c Case) (*Violation, map[string]int, *FaultPlan) {
	plan := &FaultPlan{FailAt: c.Cfg.FailAt, Torn: c.Cfg.Torn}
	opts := faultOptsFor(propOfProfile(c.Cfg.Profile))
	opts.Plan = plan
	v, ev := Run(c, opts)
	if v != nil && opts.Prop == "C09" && !monitorSig(v.Sig) {
		// C09's fault phase judges the write/truncate log only; what else a failing
		// file may break is C07's business and is reported by ./check C07
		ev["other_property_failures"]++
		v = nil
	}
	if v != nil && opts.Prop == "C19" && v.Sig != "value-read-by-key-only-op" {
		// C19's fault phase judges the read log of key-only ops only
		ev["other_property_failures"]++
		v = nil
	}
	return v, ev, plan
}

// monitorSig reports whether a violation signature belongs to the C09 call-log monitor.
func monitorSig(sig string) bool {
	switch sig {
	case "write-on-read-path", "write-below-durable-end", "truncate-outside-revert", "truncate-size", "durable-prefix-modified",
		"copyto-source-file-changed", "copyto-source-written", "snapshot-revert-wrote", "copyto-dst-truncated":
		return true
	}
	return false
}

func init() {
	replayers["C07"] = func(c Case) *Violation {
		v, _, _ := RunFault(c)
		return v
	}
}
