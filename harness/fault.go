package verifharness

// C07 engine: single-fault enumeration over generated histories.
//
// A history is first executed fault-free to count the StoreFile calls N that
// gkvlite issues on behalf of API calls; it is then re-executed once per
// k in 1..N with call k failing (for writes additionally with three torn
// lengths).  World.call classifies every API call against the plan.

var profFault = &Profile{
	Name: "C07-fault", MinOps: 5, MaxOps: 30, NColls: 2, BigVals: true, EndOnly: 100,
	Kinds: []wk{{OpSet, 30}, {OpSetR, 2}, {OpDel, 10}, {OpGet, 5}, {OpGetItem, 4}, {OpMin, 2}, {OpMax, 1}, {OpTotals, 2}, {OpExist, 1}, {OpLen, 1},
		{OpVisit, 8}, {OpEvict, 7}, {OpFlush, 12}, {OpReopen, 7}, {OpRevert, 3}, {OpCopyTo, 3}, {OpBlock, 1}, {OpRandom, 1}, {OpDel, 1}},
}

var faultOpts = RunOpts{Prop: "C07"}

// faultFreeCount runs the history without faults and returns the number of
// countable file calls and their kinds (index k-1 = kind of call k).
func faultFreeCount(c Case) (v *Violation, n int, kinds []IOKind, lens []int, ev map[string]int) {
	plan := &FaultPlan{}
	plan.OnCall = func(k IOKind, l int) { kinds = append(kinds, k); lens = append(lens, l) }
	opts := faultOpts
	opts.Plan = plan
	v, ev = Run(c, opts)
	return v, plan.Calls, kinds, lens, ev
}

// tornModes lists the torn variants for a failing write of n bytes: 0 = nothing
// reaches the file; 1/2/3 = one byte / half / all but one; 10+j = exactly j
// bytes.  The thorough tier tries every length of writes up to 64 bytes.
func tornModes(n int, thorough bool) []int {
	if thorough && n <= 64 {
		ms := []int{0}
		for j := 1; j < n; j++ {
			ms = append(ms, 10+j)
		}
		return ms
	}
	if thorough {
		return []int{0, 1, 2, 3, 10 + 15, 10 + 16, 10 + 17, 10 + n/3, 10 + 2*n/3}
	}
	return []int{0, 1, 2, 3}
}

// RunFault executes one faulted run described by c.Cfg.FailAt / c.Cfg.Torn.
func RunFault(c Case) (*Violation, map[string]int, *FaultPlan) {
	plan := &FaultPlan{FailAt: c.Cfg.FailAt, Torn: c.Cfg.Torn}
	opts := faultOpts
	opts.Plan = plan
	v, ev := Run(c, opts)
	return v, ev, plan
}

func init() {
	replayers["C07"] = func(c Case) *Violation {
		v, _, _ := RunFault(c)
		return v
	}
}
