package verifharness

import (
	"bytes"

	g "github.com/cbehopkins/gkvlite"
)

// execCopyTo runs Store.CopyTo from the designated handle and checks the
// C11 obligations.
func (w *World) execCopyTo(op *Op) bool {
	src := w.handle(op.S)
	if src.closed {
		return true
	}
	flushEvery := op.N
	var dst *MemFile
	if op.Flag%2 == 0 {
		dst = NewMemFile("dst")
		dst.Plan = w.opt.Plan
		dst.CurAPI = 2 * w.opIdx
	} else if flushEvery > 0 {
		flushEvery = 0 // a memory-only destination cannot be flushed
	}
	var srcImg []byte
	srcLog := 0
	if w.file != nil {
		srcImg = w.file.Image()
		srcLog = len(w.file.Log)
	}
	evBefore := 0
	for _, name := range src.m.Names() {
		if c := src.st.GetCollection(name); c != nil {
			evBefore += w.countEvicted(c)
		}
	}
	var res *g.Store
	// CopyTo evicts items of its *source* on the way (EvictSomeItems, which has no
	// error result).  A file failure inside that best-effort step cannot be reported
	// by the API's shape, exactly as for a direct EvictSomeItems call; CopyTo is then
	// held to the rest of the contract: the copy it returns (and the destination
	// file) must be complete and correct, which everything below verifies.
	w.lenient = true
	ok := w.call("CopyTo", true, func() error {
		var err error
		if dst == nil {
			res, err = src.st.CopyTo(nil, flushEvery)
		} else {
			res, err = src.st.CopyTo(dst, flushEvery)
		}
		return err
	})
	w.lenient = false
	if dst != nil {
		for _, r := range dst.Log {
			if r.Kind == IOTrunc {
				w.failf("copyto-dst-truncated", "CopyTo issued Truncate(%d) on its destination file; only FlushRevert truncates a store file", r.Off)
			}
		}
	}
	if w.absorbed {
		w.absorbed = false
		w.ev["copyto_fault_absorbed"]++
		if res == nil {
			w.failf("copyto-nil", "CopyTo returned a nil store without error although a file call failed")
		}
	} else if !ok {
		if res != nil {
			w.failf("copyto-error-with-store", "CopyTo returned both a store and an error")
		}
		return false
	}
	if res == nil {
		w.failf("copyto-nil", "CopyTo returned a nil store without error")
	}
	// source untouched
	if w.file != nil {
		if !bytes.Equal(srcImg, w.file.B) {
			w.failf("copyto-source-file-changed", "CopyTo changed the source file")
		}
		for _, r := range w.file.Log[srcLog:] {
			if r.Kind == IOWrite || r.Kind == IOTrunc {
				w.failf("copyto-source-written", "CopyTo issued %s on the source file", r.Kind)
			}
		}
	}
	// the destination store is created by CopyTo without the source's callbacks, so it
	// (and its file) hold the values in plain form whatever the case's value callbacks do
	savedExtra, savedStored := curValExtra, curValStored
	curValExtra, curValStored = 0, nil
	defer func() { curValExtra, curValStored = savedExtra, savedStored }()
	// returned store == source model
	if msg := CompareStore(res, src.m); msg != "" {
		w.failf("copyto-contents", "the store returned by CopyTo differs from the source: %s", msg)
	}
	nonEmpty := 0
	for _, mc := range src.m.Colls {
		if len(mc.Items) > 0 {
			nonEmpty++
		}
	}
	n := src.m.NumItems()
	if dst != nil && flushEvery > 0 {
		// the destination file re-opens to the same state
		st2, err := w.openCopy(dst, src.m)
		if err != nil {
			w.failf("copyto-reopen", "re-opening the CopyTo destination file failed: %v", err)
		}
		if msg := CompareStore(st2, src.m); msg != "" {
			w.failf("copyto-durable", "the CopyTo destination file re-opens to a different state: %s", msg)
		}
		st2.Close()
		// only live data: decode every root record in the destination; the item
		// extents reachable from all of them must be those of the last one, and
		// every byte must be accounted for.
		img := dst.B
		cmpFor := func(name string) int {
			if mc := src.m.Colls[name]; mc != nil {
				return mc.Cmp
			}
			return 0
		}
		// The final root record ends the file; decode it first.  Every item CopyTo
		// wrote is live in it, so a write that merely looks like a root record but
		// lies inside one of its item records is a *value* (a copy of a root record
		// of the source file can even be self-consistent at its place in this other
		// file) and is not a root record of the destination.
		if o, _, err := rootAt(img, int64(len(img))); err != nil || o < 0 {
			w.failf("copyto-no-final-root", "the CopyTo destination does not end in a root record (flushEvery=%d, %d items): %v", flushEvery, n, err)
		}
		final, err := DecodeAt(img, int64(len(img)), cmpFor)
		if err != nil {
			w.failf("copyto-layout", "CopyTo destination, final root record: %v", err)
		}
		insideItem := func(off, end int64) bool {
			for _, e := range final.Extents {
				if e.Kind == 'i' && off >= e.Off && end <= e.Off+e.Len {
					return true
				}
			}
			return false
		}
		var ends []int64
		for _, r := range dst.Log {
			// root records are the writes that start with the begin magic
			if r.Kind == IOWrite && !r.Failed && r.Len >= decRootFixed && r.Off+int64(r.Len) <= int64(len(img)) &&
				string(img[r.Off:r.Off+6]) == decMagicBeg && string(img[r.Off+int64(r.Len)-6:r.Off+int64(r.Len)]) == decMagicEnd {
				if insideItem(r.Off, r.Off+int64(r.Len)) {
					w.ev["copyto_value_looks_like_root"]++
					continue
				}
				if o, _, err := rootAt(img, r.Off+int64(r.Len)); err == nil && o == r.Off {
					ends = append(ends, r.Off+int64(r.Len))
				}
			}
		}
		if len(ends) == 0 || ends[len(ends)-1] != int64(len(img)) {
			w.failf("copyto-no-final-root", "the CopyTo destination does not end in a root record (flushEvery=%d, %d items)", flushEvery, n)
		}
		if len(ends) > 48 {
			// very many root records (bulk source, tiny flushEvery): decoding every one of
			// them is quadratic; keep the first and the last 24 (the accounting below
			// then only covers what those reach, see Account)
			ends = append(append([]int64{}, ends[:24]...), ends[len(ends)-24:]...)
			w.ev["copyto_roots_sampled"]++
		}
		var ds []*Decoded
		for _, e := range ends {
			d, err := DecodeAt(img, e, cmpFor)
			if err != nil {
				w.failf("copyto-layout", "CopyTo destination, root record ending at %d: %v", e, err)
			}
			ds = append(ds, d)
		}
		last := ds[len(ds)-1]
		if msg := CompareDecoded(last, src.m); msg != "" {
			w.failf("copyto-decode", "CopyTo destination decoded independently: %s", msg)
		}
		live := map[int64]bool{}
		for _, e := range last.Extents {
			if e.Kind == 'i' {
				live[e.Off] = true
			}
		}
		for _, d := range ds {
			for _, e := range d.Extents {
				if e.Kind == 'i' && !live[e.Off] {
					w.failf("copyto-superseded-item", "the CopyTo destination holds an item record at %d that the final state does not use (a superseded item version)", e.Off)
				}
			}
		}
		if w.ev["copyto_roots_sampled"] == 0 {
			if msg := Account(int64(len(img)), ds); msg != "" {
				w.failf("copyto-accounting", "CopyTo destination: %s", msg)
			}
		}
		w.ev["copyto_durable_checked"]++
		if flushEvery <= n && nonEmpty >= 2 && evBefore > 0 {
			w.ev["copyto_nontrivial"]++
		}
	}
	res.Close()
	w.ev["copyto"]++
	if src.snap {
		w.ev["copyto_from_snapshot"]++
	}
	if evBefore > 0 {
		w.ev["copyto_src_evicted"]++
	}
	return true
}
