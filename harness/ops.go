package verifharness

import (
	"encoding/json"
	"fmt"
	"hash/fnv"
	"os"
	"strings"
)

// Op kinds understood by the interpreter (world.go).
const (
	OpSet       = "set"       // SetItem(Key,Val,Prio) on collection C
	OpSetR      = "setr"      // Set(Key,Val): library draws the priority
	OpDel       = "del"       // Delete(Key)
	OpBadSet    = "badset"    // SetItem with an invalid item (Flag selects which)
	OpGet       = "get"       // Get(Key)                       [S: handle]
	OpGetItem   = "getitem"   // GetItem(Key,WV)                [S]
	OpExist     = "exist"     // Exist(Key)                     [S]
	OpMin       = "min"       // MinItem(WV)                    [S]
	OpMax       = "max"       // MaxItem(WV)                    [S]
	OpTotals    = "totals"    // GetTotals                      [S]
	OpNames     = "names"     // GetCollectionNames             [S]
	OpLen       = "len"       // Len                            [S]
	OpVisit     = "visit"     // range visit: Flag=API, Key=target, WV, N=stop after N (<0: never) [S]
	OpBlock     = "block"     // VisitItemsAscendBlockEx(WV, mangler=Flag) [S]
	OpRandom    = "random"    // VisitItemsRandom               [S]
	OpFlush     = "flush"     // Store.Flush
	OpEvict     = "evict"     // EvictSomeItems x N on collection C
	OpReopen    = "reopen"    // Flag 0: Close + NewStore on the same file; 1: drop without Close
	OpRevert    = "revert"    // Store.FlushRevert on the original
	OpSetColl   = "setcoll"   // SetCollection(name C, comparator Flag)
	OpRmColl    = "rmcoll"    // RemoveCollection(name C)
	OpSnap      = "snap"      // Snapshot of handle S
	OpSnapClose = "snapclose" // Close snapshot S
	OpSnapRev   = "snaprev"   // FlushRevert on snapshot S
	OpSnapBad   = "snapbad"   // rejected op on snapshot S (Flag: 0 set,1 delete,2 flush,3 write,4 evict)
	OpCopyTo    = "copyto"    // CopyTo from handle S, flushEvery N, Flag 0: file destination, 1: nil (memory) destination
	OpClose     = "close"     // Store.Close on the original
	OpWrite     = "write"     // Collection.Write
	OpChurn     = "churn"     // allocate and release N nodes in an unrelated store
	OpIter      = "iter"      // iterator script (see iter.go)
	OpBulk      = "bulk"      // bulk load: N SetItems with derived keys/values/priorities on collection C (Flag seeds the derivation)
	OpMisc      = "misc"      // read-only conveniences: Flag selects Stats / AllocStats / Name / MarshalJSON / GetAny / ExistAny [S]
)

// Visit APIs (Op.Flag of OpVisit).
const (
	VAscend = iota
	VDescend
	VAscendEx
	VDescendEx
	VIterAscend
	VIterDescend
	NumVisitAPIs
)

var visitAPINames = [...]string{"Ascend", "Descend", "AscendEx", "DescendEx", "IterAscend", "IterDescend"}

// Op is one step of a generated history.  It is plain data so that a case can
// be written out, replayed without rapid, and shrunk as one value.
type Op struct {
	K    string `json:"k"`
	C    int    `json:"c,omitempty"`
	S    int    `json:"s,omitempty"`
	Key  []byte `json:"key,omitempty"`
	Val  []byte `json:"val,omitempty"`
	Prio int32  `json:"p,omitempty"`
	WV   bool   `json:"wv,omitempty"`
	N    int    `json:"n,omitempty"`
	Flag int    `json:"f,omitempty"`
	At   int    `json:"at,omitempty"`  // position inside a visit at which Sub runs
	Sub  []Op   `json:"sub,omitempty"` // ops run from inside a visitor callback
	Nil  bool   `json:"nil,omitempty"` // Key is nil rather than empty (targets)
}

// Config is the per-case configuration.
type Config struct {
	Profile    string `json:"profile"`
	Mem        bool   `json:"mem,omitempty"`       // memory-only store
	RandSeed   int64  `json:"rand"`                // seed for gkvlite's use of math/rand
	CheckEvery int    `json:"check"`               // 1: full comparison after every op; 0: only at the end
	Callbacks  int    `json:"cb,omitempty"`        // bit set of neutral callbacks (C17)
	DefCmp     int    `json:"cmp,omitempty"`       // comparator for auto-created collections
	Stores     int    `json:"stores,omitempty"`    // extra unrelated stores (C10)
	Monotone   bool   `json:"monotone,omitempty"`  // generator promised no lowering overwrite (C13)
	FailAt     int    `json:"failat,omitempty"`    // C07 replay: failing call number
	Torn       int    `json:"torn,omitempty"`      // C07 replay: torn mode
	Extra      []int  `json:"extra,omitempty"`     // engine specific (C03 crash point, C05 schedule ...)
	Note       string `json:"note,omitempty"`      // engine specific
	Junk       []byte `json:"junk,omitempty"`      // C03: bytes appended after the cut
	Workers    [][]Op `json:"workers,omitempty"`   // C05: per-worker op lists
	Sched      []int  `json:"sched,omitempty"`     // C05: schedule
	SchedMode  int    `json:"schedmode,omitempty"` // C05: 0 = Sched lists the pick at every yield point; 1 = priority schedule (PCT style): Sched[0..5] worker priorities, then the ticks of the change points
	NameSet    int    `json:"names,omitempty"`     // which set of collection names the indices refer to
	Framed     bool   `json:"framed,omitempty"`    // value callbacks store every value with a 4-byte trailer (ItemValLength = len(Val)+4)
	Masked     bool   `json:"masked,omitempty"`    // value callbacks store every value XOR-masked (same length, different bytes on file)
	CmpViaSet  bool   `json:"cmpviaset,omitempty"` // comparators re-installed by SetCollection after a load (no KeyCompareForCollection callback unless its bit is set)
}

// Case is one generated test case.
type Case struct {
	Cfg Config `json:"cfg"`
	Ops []Op   `json:"ops"`
}

// CollNames are the collection names histories refer to by index.  Valid
// UTF-8 only: names travel through encoding/json as object keys.
var CollNames = []string{"a", "b", "c", "", "π/\"x\\<>&"}

// NameSets are the alternative name sets a case may draw (Config.NameSet):
// control characters, DEL, non-printable runes beyond the BMP, characters
// encoding/json escapes, names that differ only in case or length, a long name.
// All are valid UTF-8 and round-trip through encoding/json unchanged.
var NameSets = [][]string{
	CollNames,
	{"a\x01", "\x7f", "b\x1fc", "\U000E0001", "tab\there"},
	{"A", "a", "aa", "Z\u2028", "\u00e9"},
	{strings.Repeat("n", 300), "0", "00", "\\", "\""},
	// one name long enough to push the root record beyond 64 KiB (drawn rarely,
	// only by profiles with HugeNames)
	{"a", strings.Repeat("h", 70000), "b", "c", ""},
}

// curNameSet is the name set of the case being generated, run or rendered
// (cases run one at a time per process).
var curNameSet int

func collName(i int) string {
	if i < 0 {
		i = -i
	}
	ns := NameSets[0]
	if curNameSet > 0 && curNameSet < len(NameSets) {
		ns = NameSets[curNameSet]
	}
	return ns[i%len(ns)]
}

func qb(b []byte) string {
	if b == nil {
		return "nil"
	}
	if len(b) > 24 {
		return fmt.Sprintf("%q..(%d bytes)", b[:12], len(b))
	}
	return fmt.Sprintf("%q", b)
}

// String renders an op compactly for evidence samples and failure messages.
func (o Op) String() string {
	h := ""
	if o.S != 0 {
		h = fmt.Sprintf("@h%d", o.S)
	}
	c := fmt.Sprintf("[%q]", collName(o.C))
	var s string
	switch o.K {
	case OpSet:
		s = fmt.Sprintf("SetItem%s(%s=%s p%d)", c, qb(o.Key), qb(o.Val), o.Prio)
	case OpSetR:
		s = fmt.Sprintf("Set%s(%s=%s)", c, qb(o.Key), qb(o.Val))
	case OpDel:
		s = fmt.Sprintf("Delete%s(%s)", c, qb(o.Key))
	case OpBadSet:
		s = fmt.Sprintf("BadSetItem%s(kind %d)", c, o.Flag)
	case OpGet:
		s = fmt.Sprintf("Get%s%s(%s)", h, c, qb(o.Key))
	case OpGetItem:
		s = fmt.Sprintf("GetItem%s%s(%s,%v)", h, c, qb(o.Key), o.WV)
	case OpExist:
		s = fmt.Sprintf("Exist%s%s(%s)", h, c, qb(o.Key))
	case OpMin:
		s = fmt.Sprintf("MinItem%s%s(%v)", h, c, o.WV)
	case OpMax:
		s = fmt.Sprintf("MaxItem%s%s(%v)", h, c, o.WV)
	case OpTotals:
		s = fmt.Sprintf("GetTotals%s%s", h, c)
	case OpNames:
		s = fmt.Sprintf("Names%s", h)
	case OpLen:
		s = fmt.Sprintf("Len%s%s", h, c)
	case OpVisit:
		t := qb(o.Key)
		if o.Nil {
			t = "nil"
		}
		s = fmt.Sprintf("Visit%s%s%s(target %s,wv %v,stop %d)", visitAPINames[o.Flag%NumVisitAPIs], h, c, t, o.WV, o.N)
	case OpBlock:
		s = fmt.Sprintf("BlockVisit%s%s(wv %v,mangler %d)", h, c, o.WV, o.Flag)
	case OpRandom:
		s = fmt.Sprintf("RandomVisit%s%s", h, c)
	case OpFlush:
		s = "Flush"
	case OpEvict:
		s = fmt.Sprintf("Evict%s x%d", c, o.N)
		if o.Flag == 1 {
			s = fmt.Sprintf("EvictAllCollections x%d", o.N)
		}
	case OpReopen:
		if o.Flag == 0 {
			s = "Close+Reopen"
		} else {
			s = "Drop+Reopen"
		}
	case OpRevert:
		s = "FlushRevert"
	case OpSetColl:
		s = fmt.Sprintf("SetCollection%s(cmp %d)", c, o.Flag)
	case OpRmColl:
		s = fmt.Sprintf("RemoveCollection%s", c)
	case OpSnap:
		s = fmt.Sprintf("Snapshot(of h%d)", o.S)
	case OpSnapClose:
		s = fmt.Sprintf("SnapClose(h%d)", o.S)
	case OpSnapRev:
		s = fmt.Sprintf("SnapFlushRevert(h%d)", o.S)
	case OpSnapBad:
		s = fmt.Sprintf("SnapRejected(h%d,%d)%s", o.S, o.Flag, c)
	case OpCopyTo:
		s = fmt.Sprintf("CopyTo(from h%d,flushEvery %d,dst %d)", o.S, o.N, o.Flag)
	case OpClose:
		s = "Close"
	case OpWrite:
		s = fmt.Sprintf("Write%s", c)
	case OpChurn:
		s = fmt.Sprintf("Churn(%d)", o.N)
	case OpIter:
		s = fmt.Sprintf("Iter%s%s(dir %d,target %s,wv %v,script %v)", h, c, o.Flag, qb(o.Key), o.WV, o.Val)
	case OpBulk:
		s = fmt.Sprintf("BulkLoad%s(%d items, seed %d)", c, o.N, o.Flag)
	case OpMisc:
		s = fmt.Sprintf("Misc%s%s(kind %d, key %s)", h, c, o.Flag, qb(o.Key))
	default:
		s = o.K
	}
	if len(o.Sub) > 0 {
		parts := make([]string, len(o.Sub))
		for i, so := range o.Sub {
			parts[i] = so.String()
		}
		s += fmt.Sprintf("{at %d: %s}", o.At, strings.Join(parts, "; "))
	}
	return s
}

// String renders a whole case.
func (c Case) String() string {
	saved := curNameSet
	curNameSet = c.Cfg.NameSet
	defer func() { curNameSet = saved }()
	parts := make([]string, 0, len(c.Ops)+1)
	kind := "file"
	if c.Cfg.Mem {
		kind = "mem"
	}
	parts = append(parts, fmt.Sprintf("<%s %s cb=%d>", c.Cfg.Profile, kind, c.Cfg.Callbacks))
	for _, o := range c.Ops {
		parts = append(parts, o.String())
	}
	for i, wk := range c.Cfg.Workers {
		ps := make([]string, len(wk))
		for j, o := range wk {
			ps[j] = o.String()
		}
		parts = append(parts, fmt.Sprintf("worker%d[%s]", i, strings.Join(ps, "; ")))
	}
	if len(c.Cfg.Sched) > 0 {
		parts = append(parts, fmt.Sprintf("sched(mode %d)%v", c.Cfg.SchedMode, c.Cfg.Sched))
	}
	if c.Cfg.FailAt > 0 {
		parts = append(parts, fmt.Sprintf("fault(call %d,torn %d)", c.Cfg.FailAt, c.Cfg.Torn))
	}
	if len(c.Cfg.Extra) > 0 {
		parts = append(parts, fmt.Sprintf("extra%v", c.Cfg.Extra))
	}
	s := strings.Join(parts, " ")
	if len(s) > 1500 {
		s = s[:1500] + "..."
	}
	return s
}

// Hash is a stable 64-bit hash of the case (for distinct counting).
func (c Case) Hash() uint64 {
	b, _ := json.Marshal(c)
	h := fnv.New64a()
	h.Write(b)
	return h.Sum64()
}

// SaveCase writes the case as JSON (the replay format).
func SaveCase(path string, c Case) error {
	b, err := json.MarshalIndent(c, "", " ")
	if err != nil {
		return err
	}
	return os.WriteFile(path, b, 0644)
}

// LoadCase reads a replay file.
func LoadCase(path string) (Case, error) {
	var c Case
	b, err := os.ReadFile(path)
	if err != nil {
		return c, err
	}
	err = json.Unmarshal(b, &c)
	return c, err
}
