// Package verifharness holds the property-based testing machinery that
// decides the properties in /verif/properties.jsonl against /repo.
package verifharness
