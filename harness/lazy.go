package verifharness

import (
	"fmt"
	"sort"
)

// lazyState holds what the C19 oracle knows: the byte ranges of the file that
// hold item *values*, as computed by the independent decoder from every root
// record ever flushed in this case.
type lazyState struct {
	ranges  [][2]int64 // sorted, disjoint [lo,hi)
	seen    map[int64]bool
	logPos  int
	valueOK bool
}

func newLazyState() *lazyState { return &lazyState{seen: map[int64]bool{}} }

// noteFlush adds the value ranges of the newest flush.
func (l *lazyState) noteFlush(w *World) {
	l.addDurable(w.file.B, w.durable[len(w.durable)-1])
}

// addDurable adds the value ranges reachable from one flushed state.
func (l *lazyState) addDurable(img []byte, top Durable) {
	d, err := DecodeAt(img, top.fileLen, func(name string) int {
		if mc := top.ms.Colls[name]; mc != nil {
			return mc.Cmp
		}
		return 0
	})
	if err != nil {
		return // C14's business
	}
	changed := false
	for _, c := range d.Colls {
		for _, it := range c.Items {
			if len(it.Val) == 0 || l.seen[it.Off] {
				continue
			}
			l.seen[it.Off] = true
			l.ranges = append(l.ranges, [2]int64{it.ValOff, it.ValOff + int64(len(it.Val))})
			changed = true
		}
	}
	if changed {
		sort.Slice(l.ranges, func(i, j int) bool { return l.ranges[i][0] < l.ranges[j][0] })
	}
}

// hits returns the first value range intersecting [off,off+n).
func (l *lazyState) hits(off int64, n int) (r [2]int64, ok bool) {
	if n <= 0 {
		return r, false
	}
	end := off + int64(n)
	i := sort.Search(len(l.ranges), func(i int) bool { return l.ranges[i][1] > off })
	if i < len(l.ranges) && l.ranges[i][0] < end {
		return l.ranges[i], true
	}
	return r, false
}

// keyOnly reports whether an op must not read any value byte.
func keyOnlyOp(op *Op) bool {
	switch op.K {
	case OpGetItem, OpMin, OpMax:
		return !op.WV
	case OpVisit:
		return !op.WV
	case OpExist, OpLen, OpSet, OpSetR, OpDel, OpTotals, OpNames, OpEvict, OpBadSet:
		return true
	case OpMisc:
		return op.Flag%6 != 4 // everything but GetAny (Stats, AllocStats, Name, MarshalJSON, ExistAny)
	}
	return false
}

// lazyCheck inspects the reads the op just made.
func (w *World) lazyCheck(op *Op) {
	l := w.lazy
	if l == nil || w.file == nil {
		return
	}
	recs := w.file.Log[l.logPos:]
	l.logPos = len(w.file.Log)
	switch {
	case op.K == OpReopen:
		// Opening a file that ends in a root record reads only that record.
		if len(w.durable) == 0 {
			return
		}
		top := w.durable[len(w.durable)-1]
		if top.fileLen != int64(len(w.file.B)) {
			return // file does not end in a root record
		}
		rootOff, _, err := rootAt(w.file.B, top.fileLen)
		if err != nil {
			return
		}
		reads := 0
		for _, r := range recs {
			if r.API%2 != 0 || r.Kind != IORead {
				continue
			}
			reads += 1 + r.Rep
			if r.Off < rootOff {
				w.failf("open-read-outside-root", "NewStore read [%d,%d), which lies before the last root record at %d: opening must read only that record", r.Off, r.Off+int64(r.Len), rootOff)
			}
		}
		if reads > 8 {
			w.failf("open-read-count", "NewStore issued %d reads to open a file ending in a root record", reads)
		}
		w.ev["lazy_open_checked"]++
		if w.orig.m.NumItems() >= 10 {
			w.ev["lazy_open_checked_10plus"]++
		}
	case keyOnlyOp(op):
		for _, r := range recs {
			if r.API%2 != 0 || r.Kind != IORead {
				continue
			}
			if rg, hit := l.hits(r.Off, r.Len+r.Rep); hit {
				w.failf("value-read-by-key-only-op", "%s read file bytes [%d,%d), which intersect the value bytes [%d,%d) of a stored item", op.String(), r.Off, r.Off+int64(r.Len), rg[0], rg[1])
			}
			w.ev["lazy_reads_checked"]++
		}
		w.ev["lazy_keyonly_ops"]++
	}
}

func (l *lazyState) String() string { return fmt.Sprintf("%d value ranges", len(l.ranges)) }
