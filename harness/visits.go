package verifharness

import (
	"bytes"
	"fmt"
	"math/rand"
	"os"
	"runtime"

	g "github.com/cbehopkins/gkvlite"
)

// execVisit runs one range visit through one of the six APIs and compares the
// delivered sequence with the model's range.
func (w *World) execVisit(op *Op) bool {
	h := w.handle(op.S)
	if h.closed {
		return true
	}
	c, mc := w.collFor(h, op.C, !h.snap)
	if c == nil {
		return true
	}
	api := op.Flag % NumVisitAPIs
	if api < 0 {
		api = -api
	}
	var target []byte
	if !op.Nil {
		target = append([]byte{}, op.Key...)
	}
	asc := api == VAscend || api == VAscendEx || api == VIterAscend
	frozen := mc
	if len(op.Sub) > 0 {
		frozen = mc.Clone()
	}
	var want [][]byte
	if asc {
		want = frozen.Ascend(target)
	} else {
		want = frozen.Descend(target)
	}
	fullLen := len(want)
	stop := op.N
	if stop > 0 && len(want) > stop {
		want = want[:stop]
	}
	// cache-state label: how many of the items to be delivered are not cached now
	evictedBefore := 0
	if !h.snap || true {
		evictedBefore = w.countEvicted(c)
	}

	if w.rc != nil && len(op.Sub) > 0 && os.Getenv("VERIF_NO_EXCLUDE") == "" {
		// known finding K1: a nested mutation supersedes the version this visit pins;
		// nodes the visit then loads through it would be private to it (see prewarm)
		w.prewarm(h)
	}
	var got []kvp
	extra := 0
	stopped := false
	subDone := false
	visitor := func(i *g.Item, d uint64) bool {
		if stopped {
			extra++
			return false
		}
		if w.rc != nil {
			w.rc.checkPositive(w, i, "visitor argument")
		}
		e := kvp{k: append([]byte(nil), i.Key...), p: i.Priority, d: d}
		if i.Val != nil {
			e.v = append([]byte{}, i.Val...)
		}
		got = append(got, e)
		if len(op.Sub) > 0 && !subDone && len(got)-1 == op.At {
			subDone = true
			w.inVisit++
			for j := range op.Sub {
				w.exec(&op.Sub[j])
				w.ev["nested:"+op.Sub[j].K]++
			}
			w.inVisit--
			w.ev["nested_ops"]++
			w.released++
		}
		if stop > 0 && len(got) >= stop {
			stopped = true
			return false
		}
		return true
	}
	name := "Visit" + visitAPINames[api]
	w.visiting = append(w.visiting, h)
	defer func() { w.visiting = w.visiting[:len(w.visiting)-1] }()
	ok := w.call(name, true, func() error {
		switch api {
		case VAscend:
			return c.VisitItemsAscend(target, op.WV, func(i *g.Item) bool { return visitor(i, 0) })
		case VDescend:
			return c.VisitItemsDescend(target, op.WV, func(i *g.Item) bool { return visitor(i, 0) })
		case VAscendEx:
			return c.VisitItemsAscendEx(target, op.WV, visitor)
		case VDescendEx:
			return c.VisitItemsDescendEx(target, op.WV, visitor)
		default:
			var it g.ItemIterator
			if api == VIterAscend {
				it = c.IterateAscend(target, op.WV)
			} else {
				it = c.IterateDescend(target, op.WV)
			}
			var kept []*g.Item
			var keptCopy []kvp
			defer func() {
				// items obtained from Result() are the caller's to keep (like the items a
				// visitor is shown): later Next() calls must not have overwritten them
				for j, ki := range kept {
					kc := keptCopy[j]
					if !bytes.Equal(ki.Key, kc.k) || ki.Priority != kc.p || (kc.v != nil && !bytes.Equal(ki.Val, kc.v)) {
						w.failf("iter-result-aliased", "the item returned by Result() at position %d (key %s) had changed by the end of the iteration (now key %s, priority %d)", j, qb(kc.k), qb(ki.Key), ki.Priority)
					}
				}
			}()
			for it.Next() {
				r := it.Result()
				if r == nil {
					w.failf("iter-nil-result", "iterator Next()==true but Result()==nil")
				}
				if w.rc == nil && len(kept) < 64 {
					kept = append(kept, r)
					e := kvp{k: append([]byte(nil), r.Key...), p: r.Priority}
					if r.Val != nil {
						e.v = append([]byte{}, r.Val...)
					}
					keptCopy = append(keptCopy, e)
				}
				if w.rc != nil {
					// the item stays handed out until the next Next(): give a producer that
					// wrongly runs on the chance to release it before its count is looked at
					for k := 0; k < 20; k++ {
						runtime.Gosched()
					}
				}
				if !visitor(r, 0) {
					break
				}
			}
			it.Close()
			if it.Next() {
				w.failf("iter-next-after-close", "iterator Next() returned true after Close()")
			}
			w.waitGoroutines("after iterator Close")
			return it.Err()
		}
	})
	if !ok {
		if api >= VIterAscend {
			w.waitGoroutines("after failed iterator")
		}
		return false
	}
	if extra > 0 {
		w.failf("visit-after-stop", "%s: the visitor was called %d more time(s) after it returned false", name, extra)
	}
	if len(got) != len(want) {
		w.failf("visit-range", "%s(target %s) delivered %d items %s, the model's range has %d %s", name, qb(target), len(got), seqKeys(got), len(want), keyList(want))
	}
	for i, k := range want {
		e := got[i]
		mi := frozen.Items[string(k)]
		if !bytes.Equal(e.k, k) {
			w.failf("visit-range", "%s(target %s) position %d is %s, model %s (got %s, model %s)", name, qb(target), i, qb(e.k), qb(k), seqKeys(got), keyList(want))
		}
		if e.p != mi.Prio {
			w.failf("visit-priority", "%s: key %s delivered with priority %d, model %d", name, qb(k), e.p, mi.Prio)
		}
		if op.WV {
			if e.v == nil || !bytes.Equal(e.v, mi.Val) {
				w.failf("visit-value", "%s: key %s delivered with value %s, model %s", name, qb(k), qb(e.v), qb(mi.Val))
			}
		} else if e.v != nil && !bytes.Equal(e.v, mi.Val) {
			w.failf("visit-value", "%s(withValue=false): key %s carries a wrong value %s, model %s", name, qb(k), qb(e.v), qb(mi.Val))
		}
	}
	w.ev["visit"]++
	w.ev["visit_api_"+visitAPINames[api]]++
	if len(frozen.Items) >= 3 && fullLen > 0 && fullLen < len(frozen.Items) {
		w.ev["visit_inside"]++
		if evictedBefore > 0 {
			w.ev["visit_inside_evicted"]++
		}
	}
	if evictedBefore > 0 && len(got) > 0 {
		w.ev["visit_over_evicted"]++
	}
	if stop > 0 && stop < fullLen {
		w.ev["visit_stopped_early"]++
	}
	if h.snap {
		w.ev["visit_on_snapshot"]++
	}
	if (api == VAscendEx || api == VDescendEx) && len(op.Sub) == 0 && len(got) > 0 {
		w.depthCheck(h, c, mc, got, name)
	}
	return true
}

// countEvicted returns how many cached nodes of the collection have no cached
// item plus how many nodes are not loaded at all (approximated through totals).
func (w *World) countEvicted(c *g.Collection) int {
	cached, withItem := 0, 0
	c.VerifWalk(1<<20, func(n g.VerifNode) {
		cached++
		if n.Item != nil {
			withItem++
		}
	})
	n, _, err := c.GetTotals()
	if err != nil {
		return 0
	}
	return int(n) - withItem
}

// depthCheck validates the depths an Ex visit reported:
// D1 a full scan's (key, depth) sequence is a valid in-order traversal of a binary tree,
// D2 it equals the path lengths of the cached tree (hook walk) when every node is cached,
// D3 the visit's depths agree with the full scan's for the same keys.
func (w *World) depthCheck(h *Handle, c *g.Collection, mc *MColl, got []kvp, name string) {
	full, err := scanAll(h.st, c, false, w.rc)
	if err != nil {
		w.failf("scan-error", "full scan after %s failed: %v", name, err)
	}
	if len(full) != len(mc.Items) {
		return // the contents oracle reports this
	}
	ds := make([]uint64, len(full))
	byKey := map[string]uint64{}
	for i, e := range full {
		ds[i] = e.d
		byKey[string(e.k)] = e.d
	}
	if msg := validInorderDepths(ds); msg != "" {
		w.failf("depth-shape", "depths reported by a full VisitItemsAscendEx are not those of a binary tree: %s (depths %v)", msg, ds)
	}
	for _, e := range got {
		if d, ok := byKey[string(e.k)]; ok && d != e.d {
			w.failf("depth-mismatch", "%s reported depth %d for key %s, a full scan of the same version reports %d", name, e.d, qb(e.k), d)
		}
	}
	// D2: positional comparison with the hook walk
	var nodes []g.VerifNode
	complete := c.VerifWalk(1<<20, func(n g.VerifNode) { nodes = append(nodes, n) })
	if complete && len(nodes) == len(full) {
		sortInorder(nodes)
		for i, n := range nodes {
			if uint64(len(n.Path)) != ds[i] {
				w.failf("depth-true", "key %s: reported depth %d, its node sits at depth %d in the tree (path %q)", qb(full[i].k), ds[i], len(n.Path), n.Path)
			}
		}
		w.ev["depth_walk_checked"]++
	}
	w.ev["depth_checked"]++
}

// validInorderDepths checks that ds is the in-order depth sequence of some binary tree.
func validInorderDepths(ds []uint64) string {
	var rec func(lo, hi int, d uint64) string
	rec = func(lo, hi int, d uint64) string {
		if lo >= hi {
			return ""
		}
		root := -1
		for i := lo; i < hi; i++ {
			if ds[i] == d {
				if root >= 0 {
					return fmt.Sprintf("two nodes at depth %d within one subtree (positions %d and %d)", d, root, i)
				}
				root = i
			} else if ds[i] < d {
				return fmt.Sprintf("position %d has depth %d inside a subtree rooted at depth %d", i, ds[i], d)
			}
		}
		if root < 0 {
			return fmt.Sprintf("no node at depth %d in positions [%d,%d)", d, lo, hi)
		}
		if m := rec(lo, root, d+1); m != "" {
			return m
		}
		return rec(root+1, hi, d+1)
	}
	return rec(0, len(ds), 0)
}

// sortInorder orders walk nodes by in-order position using their paths.
func sortInorder(ns []g.VerifNode) {
	less := func(a, b string) bool {
		// in-order: left subtree < node < right subtree
		i := 0
		for i < len(a) && i < len(b) && a[i] == b[i] {
			i++
		}
		switch {
		case i == len(a) && i == len(b):
			return false
		case i == len(a): // a is an ancestor of b
			return b[i] == 'R'
		case i == len(b): // b is an ancestor of a
			return a[i] == 'L'
		default:
			return a[i] == 'L'
		}
	}
	// insertion sort is fine for the sizes used; use sort.Slice for clarity
	sortSlice(ns, func(i, j int) bool { return less(ns[i].Path, ns[j].Path) })
}

// Block manglers for VisitItemsAscendBlockEx.
func mangler(kind int, seed int64) g.BlockMangler {
	switch kind % 4 {
	case 1:
		return func(b [][]byte) [][]byte {
			for i, j := 0, len(b)-1; i < j; i, j = i+1, j-1 {
				b[i], b[j] = b[j], b[i]
			}
			return b
		}
	case 2:
		return g.RandBm
	case 3:
		return func(b [][]byte) [][]byte {
			r := rand.New(rand.NewSource(seed))
			r.Shuffle(len(b), func(i, j int) { b[i], b[j] = b[j], b[i] })
			return b
		}
	}
	return nil
}

// execBlock runs a whole-collection enumeration (block or random visit).
func (w *World) execBlock(op *Op) bool {
	h := w.handle(op.S)
	if h.closed {
		return true
	}
	c, mc := w.collFor(h, op.C, !h.snap)
	if c == nil {
		return true
	}
	if len(op.Sub) > 0 {
		mc = mc.Clone() // nested ops may mutate the collection; the enumeration runs on the version it started on
		if w.rc != nil && os.Getenv("VERIF_NO_EXCLUDE") == "" {
			w.prewarm(h)
		}
	}
	seen := map[string]int{}
	var bad string
	calls, subDone := 0, false
	visitor := func(i *g.Item, d uint64) bool {
		if w.rc != nil {
			w.rc.checkPositive(w, i, "block visitor argument")
		}
		calls++
		if len(op.Sub) > 0 && !subDone && calls-1 == op.At {
			subDone = true
			key := string(i.Key)
			w.inVisit++
			for j := range op.Sub {
				w.exec(&op.Sub[j])
				w.ev["nested:"+op.Sub[j].K]++
			}
			w.inVisit--
			w.ev["nested_ops"]++
			w.ev["nested_in_block_visit"]++
			w.released++
			_ = key
		}
		seen[string(i.Key)]++
		mi, ok := mc.Items[string(i.Key)]
		if !ok {
			bad = fmt.Sprintf("visitor got key %s which the model does not have", qb(i.Key))
		} else if i.Priority != mi.Prio {
			bad = fmt.Sprintf("key %s delivered with priority %d, model %d", qb(i.Key), i.Priority, mi.Prio)
		} else if i.Val != nil && !bytes.Equal(i.Val, mi.Val) {
			bad = fmt.Sprintf("key %s delivered with value %s, model %s", qb(i.Key), qb(i.Val), qb(mi.Val))
		}
		return true
	}
	name := "VisitItemsAscendBlockEx"
	var err error
	w.visiting = append(w.visiting, h)
	defer func() { w.visiting = w.visiting[:len(w.visiting)-1] }()
	p := w.opt.Plan
	fired0 := p != nil && p.Fired
	if p != nil {
		p.Active = true
	}
	if op.K == OpRandom {
		name = "VisitItemsRandom"
		err = c.VisitItemsRandom(visitor)
	} else {
		err = c.VisitItemsAscendBlockEx(op.WV, mangler(op.Flag, int64(op.N)), visitor)
	}
	if p != nil {
		p.Active = false
	}
	if p != nil && p.Fired && !fired0 {
		w.ev["fault_fired"]++
		if err == nil {
			w.failf("error-swallowed:"+name, "injected file failure during %s was swallowed", name)
		}
		return false
	}
	for _, so := range op.Sub {
		if so.K == OpSet || so.K == OpSetR || so.K == OpDel {
			// the visitor mutated the collection between the counting pass and the
			// visiting passes: what exactly is presented is not specified; only
			// termination, no panic and the contents afterwards are judged
			w.ev["block_visit_with_nested_mutation"]++
			return true
		}
	}
	if len(mc.Items) == 0 {
		// whether an empty collection yields nil or an error is not judged
		if len(seen) > 0 {
			w.failf("block-ghost", "%s on an empty collection called the visitor", name)
		}
		w.ev["block_empty"]++
		return true
	}
	if err != nil {
		w.failf("unexpected-error:"+name, "%s returned %v", name, err)
	}
	if bad != "" {
		w.failf("block-item", "%s: %s", name, bad)
	}
	for k := range mc.Items {
		if seen[k] != 1 {
			w.failf("block-coverage", "%s presented key %s %d times (collection of %d items)", name, qb([]byte(k)), seen[k], len(mc.Items))
		}
	}
	if len(seen) != len(mc.Items) {
		w.failf("block-coverage", "%s presented %d distinct keys, the collection has %d", name, len(seen), len(mc.Items))
	}
	w.ev["block_visit"]++
	if len(mc.Items)%2 == 1 {
		w.ev["block_visit_partial"]++ // sizes up to 1024 use blocks of two items
	}
	return true
}
