package verifharness

import (
	"bytes"
	"fmt"
	"os"
	"os/exec"
	"path/filepath"
	"sort"
	"strings"
	"testing"
)

// TestC09View runs the repository's tools/view binary (built from /repo's
// current tree) over copies of the golden files and checks that the files are
// byte-identical afterwards: the viewer is one of the read-only entry points
// named by C09.
func TestC09View(t *testing.T) {
	st := NewStats("C09", "tools/view (names, and items of every collection) is run on writable copies of the golden files; each file must be byte-identical afterwards", commonAssumptions)
	defer func() {
		if p := outPath(); p != "" {
			st.Write(p)
		}
	}()
	if sh, _ := shardOf(); sh != 0 {
		return
	}
	tmp, err := os.MkdirTemp("", "c09view")
	if err != nil {
		t.Fatal(err)
	}
	defer os.RemoveAll(tmp)
	bin := filepath.Join(tmp, "view")
	cmd := exec.Command("go", "build", "-o", bin, "github.com/cbehopkins/gkvlite/tools/view")
	cmd.Dir = "/verif/harness"
	if out, err := cmd.CombinedOutput(); err != nil {
		t.Fatalf("building tools/view: %v\n%s", err, out)
	}
	entries, err := os.ReadDir(goldenDir())
	if err != nil {
		t.Fatal(err)
	}
	var names []string
	for _, e := range entries {
		if strings.HasSuffix(e.Name(), ".gkv") {
			names = append(names, strings.TrimSuffix(e.Name(), ".gkv"))
		}
	}
	sort.Strings(names)
	for _, name := range names {
		img, err := os.ReadFile(filepath.Join(goldenDir(), name+".gkv"))
		if err != nil {
			t.Fatal(err)
		}
		want, err := loadGoldenState(filepath.Join(goldenDir(), name+".json"))
		if err != nil {
			t.Fatal(err)
		}
		f := filepath.Join(tmp, name+".gkv")
		if err := os.WriteFile(f, img, 0644); err != nil {
			t.Fatal(err)
		}
		runs := [][]string{{f, "names"}}
		for _, cn := range want.Names() {
			runs = append(runs, []string{"-indent", f, "items", cn})
		}
		c := Case{Cfg: Config{Profile: "C09-view", Note: name}}
		for _, args := range runs {
			// The viewer's own exit status is not judged (it knows no custom
			// comparators, for instance); only what it does to the file.
			exec.Command(bin, args...).CombinedOutput()
			after, err := os.ReadFile(f)
			if err != nil || !bytes.Equal(after, img) {
				failNow(t, "C09", c, &Violation{Prop: "C09", Sig: "view-modified-file", Msg: fmt.Sprintf("tools/view %v changed golden file %s (%d -> %d bytes, err %v)", args[1:], name, len(img), len(after), err)})
			}
		}
		st.Note(c.Hash(), map[string]int{"view_file": 1, "view_runs": len(runs)}, true, func() string {
			return fmt.Sprintf("tools/view on %s: %d invocations, file unchanged", name, len(runs))
		})
	}
}

func init() {
	prev := replayers["C09"]
	replayers["C09"] = func(c Case) *Violation {
		if c.Cfg.Profile == "C09-view" {
			return &Violation{Prop: "C09", Sig: "view", Msg: "tools/view modified or failed on golden file " + c.Cfg.Note + " (re-run ./check C09 quick)"}
		}
		if prev != nil {
			return prev(c)
		}
		v, _ := Run(c, Specs["C09"].Opts)
		return v
	}
}
