package verifharness

import (
	"fmt"
	"io"
	"sort"

	g "github.com/cbehopkins/gkvlite"
)

// Callback bits (Config.Callbacks).
const (
	CbItemAlloc = 1 << iota
	CbRefCount
	CbValLength
	CbValWrite
	CbValRead
	CbBeforeWrite
	CbAfterRead
	CbKeyCompare
	CbAll = 1<<8 - 1
)

var cbNames = []string{"ItemAlloc", "ItemAddRef/DecRef", "ItemValLength", "ItemValWrite", "ItemValRead", "BeforeItemWrite", "AfterItemRead", "KeyCompareForCollection"}

// refCounter is the application side of gkvlite's item reference counting
// protocol: a plain counter per *Item driven by the callbacks.
type refCounter struct {
	cnt map[*g.Item]int
	bad []string
	ops int
}

func newRefCounter() *refCounter { return &refCounter{cnt: map[*g.Item]int{}} }

func (r *refCounter) checkPositive(w *World, i *g.Item, where string) {
	if i != nil && r.cnt[i] <= 0 {
		w.failf("refcount-not-positive", "%s: item %s has reference count %d", where, qb(i.Key), r.cnt[i])
	}
}

func (w *World) setupCallbacks() {
	bits := w.c.Cfg.Callbacks
	if w.opt.RefCount {
		bits |= CbItemAlloc | CbRefCount
	}
	var cbs g.StoreCallbacks
	if bits&CbRefCount != 0 {
		rc := newRefCounter()
		if w.opt.RefCount {
			w.rc = rc // C15: the counts are asserted on; otherwise they are only kept (C17)
		}
		cbs.ItemAddRef = func(c *g.Collection, i *g.Item) {
			rc.cnt[i]++
			rc.ops++
		}
		cbs.ItemDecRef = func(c *g.Collection, i *g.Item) {
			rc.cnt[i]--
			rc.ops++
			if rc.cnt[i] < 0 {
				rc.bad = append(rc.bad, fmt.Sprintf("ItemDecRef took item %s below zero (%d)", qb(i.Key), rc.cnt[i]))
			}
		}
	}
	if bits&CbItemAlloc != 0 {
		rc := w.rc
		cbs.ItemAlloc = func(c *g.Collection, keyLength uint32) *g.Item {
			it := &g.Item{Key: make([]byte, keyLength)}
			if rc != nil {
				rc.cnt[it] = 1
			}
			w.ev["cb_itemalloc"]++
			return it
		}
	}
	if bits&CbValLength != 0 {
		cbs.ItemValLength = func(c *g.Collection, i *g.Item) int {
			w.ev["cb_vallength"]++
			return len(i.Val)
		}
	}
	if bits&CbValWrite != 0 {
		cbs.ItemValWrite = func(c *g.Collection, i *g.Item, wr io.WriterAt, off int64) error {
			w.ev["cb_valwrite"]++
			chunk := len(i.Val)%7 + 1
			if len(i.Val) > 512 {
				chunk = len(i.Val)/37 + 1 // larger values: a few dozen odd-sized pieces
			}
			for p := 0; p < len(i.Val); p += chunk {
				e := p + chunk
				if e > len(i.Val) {
					e = len(i.Val)
				}
				if _, err := wr.WriteAt(i.Val[p:e], off+int64(p)); err != nil {
					return err
				}
			}
			return nil
		}
	}
	if bits&CbValRead != 0 {
		cbs.ItemValRead = func(c *g.Collection, i *g.Item, r io.ReaderAt, off int64, n uint32) error {
			w.ev["cb_valread"]++
			i.Val = make([]byte, n)
			chunk := int(n)%5 + 1
			if n > 512 {
				chunk = int(n)/29 + 1
			}
			for p := 0; p < int(n); p += chunk {
				e := p + chunk
				if e > int(n) {
					e = int(n)
				}
				if _, err := r.ReadAt(i.Val[p:e], off+int64(p)); err != nil {
					return err
				}
			}
			return nil
		}
	}
	if w.c.Cfg.Framed {
		// A length-changing but self-consistent value representation (as the slab
		// tool's): every value is stored followed by a 4-byte trailer; the callbacks
		// agree on it, so byte totals are defined by ItemValLength everywhere.
		trailer := []byte{0xF0, 0x0D, 0xCA, 0xFE}
		cbs.ItemValLength = func(c *g.Collection, i *g.Item) int { return len(i.Val) + len(trailer) }
		cbs.ItemValWrite = func(c *g.Collection, i *g.Item, wr io.WriterAt, off int64) error {
			if _, err := wr.WriteAt(i.Val, off); err != nil {
				return err
			}
			_, err := wr.WriteAt(trailer, off+int64(len(i.Val)))
			return err
		}
		cbs.ItemValRead = func(c *g.Collection, i *g.Item, r io.ReaderAt, off int64, n uint32) error {
			if n < uint32(len(trailer)) {
				return fmt.Errorf("framed value shorter than its trailer: %d", n)
			}
			buf := make([]byte, n)
			if _, err := r.ReadAt(buf, off); err != nil {
				return err
			}
			if string(buf[n-uint32(len(trailer)):]) != string(trailer) {
				return fmt.Errorf("framed value at %d lacks its trailer", off)
			}
			i.Val = buf[: n-uint32(len(trailer)) : n-uint32(len(trailer))]
			return nil
		}
		w.ev["framed_values"]++
	}
	if w.c.Cfg.Masked {
		// A length-preserving but byte-changing value representation ("write item
		// bytes differently"): every value byte is stored XOR 0x5A.  Everything the API
		// returns must be what it returns without the callbacks.
		mask := func(b []byte) []byte {
			o := make([]byte, len(b))
			for i, x := range b {
				o[i] = x ^ 0x5A
			}
			return o
		}
		cbs.ItemValWrite = func(c *g.Collection, i *g.Item, wr io.WriterAt, off int64) error {
			w.ev["cb_masked_write"]++
			_, err := wr.WriteAt(mask(i.Val), off)
			return err
		}
		cbs.ItemValRead = func(c *g.Collection, i *g.Item, r io.ReaderAt, off int64, n uint32) error {
			buf := make([]byte, n)
			if _, err := r.ReadAt(buf, off); err != nil {
				return err
			}
			i.Val = mask(buf)
			return nil
		}
	}
	if bits&CbBeforeWrite != 0 {
		cbs.BeforeItemWrite = func(c *g.Collection, i *g.Item) (*g.Item, error) {
			w.ev["cb_beforewrite"]++
			return i, nil
		}
	}
	if bits&CbAfterRead != 0 {
		cbs.AfterItemRead = func(c *g.Collection, i *g.Item) (*g.Item, error) {
			w.ev["cb_afterread"]++
			return i, nil
		}
	}
	if bits&CbKeyCompare != 0 || (w.usesComparators() && !w.c.Cfg.CmpViaSet) {
		cbs.KeyCompareForCollection = func(name string) g.KeyCompare {
			w.ev["cb_keycompare"]++
			if ci, ok := w.cmpLoad[name]; ok {
				if ci == CmpBytes && w.c.Cfg.RandSeed%2 == 0 {
					return nil // documented: nil means the default, bytes.Compare
				}
				return AppCmp(ci)
			}
			return nil
		}
	}
	w.cbs = cbs
}

// usesComparators reports whether the case can install a non-default comparator.
func (w *World) usesComparators() bool {
	if w.c.Cfg.DefCmp != 0 {
		return true
	}
	for _, o := range w.c.Ops {
		if o.K == OpSetColl && o.Flag%NumCmp != 0 {
			return true
		}
		for _, s := range o.Sub {
			if s.K == OpSetColl && s.Flag%NumCmp != 0 {
				return true
			}
		}
	}
	return false
}

// refStep is run after every op: no DecRef below zero may have happened.
func (w *World) refStep() {
	if w.rc != nil && len(w.rc.bad) > 0 {
		w.failf("refcount-negative", "%s", w.rc.bad[0])
	}
}

// refCheckClosed is called when the original and all snapshots are closed:
// every reference gkvlite took must have been released.
func (w *World) refCheckClosed() {
	if w.rc == nil || len(w.snaps) > 0 || !w.orig.closed {
		return
	}
	w.refStep()
	var leaked []string
	for it, n := range w.rc.cnt {
		if n != 0 {
			leaked = append(leaked, fmt.Sprintf("%s:%d", qb(it.Key), n))
		}
	}
	if len(leaked) > 0 {
		sort.Strings(leaked)
		if len(leaked) > 8 {
			leaked = append(leaked[:8], "...")
		}
		w.failf("refcount-leak", "store and snapshots are closed but %d item(s) still have a non-zero count: %v", len(leaked), leaked)
	}
	w.ev["refcount_balanced_at_close"]++
	w.rc.cnt = map[*g.Item]int{}
}
