module verifharness

go 1.23

toolchain go1.23.5

require (
	github.com/cbehopkins/gkvlite v0.0.0
	pgregory.net/rapid v1.3.0
)

replace github.com/cbehopkins/gkvlite => /repo
