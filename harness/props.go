package verifharness

// Spec ties a property to its generator profile, its active oracles and its
// non-triviality rule.
type Spec struct {
	Prop        string
	Profile     *Profile
	Opts        RunOpts
	NonTrivial  func(c *Case, ev map[string]int) bool
	Rule        string
	Assumptions []string
	// Variants lets a property run several profiles round-robin (C09, C17).
	Variants []*Profile
}

var commonAssumptions = []string{
	"MemFile (in-memory StoreFile with os.File EOF semantics) stands in for a real file",
	"collection names are valid UTF-8 (they travel through encoding/json as object keys)",
	"gkvlite's own use of math/rand is seeded per case through rand.Seed (go.mod < 1.24 semantics)",
	"the reference model (Go map + sort under the collection's comparator) is the specification",
}

func has(ev map[string]int, ks ...string) bool {
	for _, k := range ks {
		if ev[k] <= 0 {
			return false
		}
	}
	return true
}

func any(ev map[string]int, ks ...string) bool {
	for _, k := range ks {
		if ev[k] > 0 {
			return true
		}
	}
	return false
}

var profMap = &Profile{
	Name: "C01-map", MinOps: 1, MaxOps: 60, NColls: 3, MemPct: 25, BigKeys: true, BigVals: true, EndOnly: 25, Bulk: 2, Cmps: true,
	Kinds: []wk{{OpSet, 30}, {OpSetR, 6}, {OpDel, 14}, {OpGet, 8}, {OpGetItem, 6}, {OpExist, 3}, {OpMin, 3}, {OpMax, 3},
		{OpTotals, 3}, {OpBadSet, 3}, {OpFlush, 8}, {OpEvict, 7}, {OpReopen, 5}, {OpMisc, 2}},
}

var profDurable = &Profile{
	Name: "C02-durable", MinOps: 2, MaxOps: 50, NColls: 3, BigKeys: true, BigVals: true, Hostile: true, HugeNames: true, Bulk: 2, Cmps: true, Framed: 8,
	Kinds: []wk{{OpSet, 30}, {OpSetR, 4}, {OpDel, 12}, {OpFlush, 14}, {OpEvict, 4}, {OpReopen, 9}, {OpSetColl, 4}, {OpRmColl, 3}, {OpNames, 1}, {OpRevert, 3}, {OpWrite, 2}, {OpGet, 3}},
}

var profSnap = &Profile{
	Name: "C04-snap", MinOps: 3, MaxOps: 50, NColls: 2, MemPct: 20, Snaps: true, Cmps: true,
	Kinds: []wk{{OpSet, 26}, {OpSetR, 2}, {OpDel, 10}, {OpFlush, 8}, {OpEvict, 6}, {OpSetColl, 3}, {OpRmColl, 3}, {OpSnap, 11}, {OpSnapClose, 8},
		{OpSnapRev, 4}, {OpSnapBad, 3}, {OpGet, 3}, {OpGetItem, 2}, {OpVisit, 4}, {OpMin, 1}, {OpClose, 1}, {OpTotals, 1},
		{OpMax, 1}, {OpExist, 1}, {OpNames, 1}, {OpLen, 1}, {OpBlock, 1}, {OpCopyTo, 1}, {OpDel, 2}, {OpWrite, 2}},
}

var profRange = &Profile{
	Name: "C06-range", MinOps: 4, MaxOps: 50, NColls: 2, MemPct: 15, Cmps: true, BigKeys: true, EndOnly: 70, Snaps: true,
	Kinds: []wk{{OpSet, 34}, {OpDel, 6}, {OpFlush, 6}, {OpEvict, 8}, {OpReopen, 4}, {OpVisit, 42}, {OpSnap, 3}, {OpSnapClose, 1}},
}

var profRevert = &Profile{
	Name: "C08-revert", MinOps: 2, MaxOps: 40, NColls: 2, MemPct: 8, BigVals: true, Hostile: true, Cmps: true,
	Kinds: []wk{{OpSet, 30}, {OpDel, 8}, {OpFlush, 20}, {OpRevert, 20}, {OpReopen, 8}, {OpEvict, 3}, {OpSetColl, 2}, {OpRmColl, 2}, {OpWrite, 2}, {OpGet, 2}},
}

var profMonitor = &Profile{
	Name: "C09-monitor", MinOps: 3, MaxOps: 45, NColls: 2, Snaps: true, BigVals: true, EndOnly: 50, Hostile: true,
	Kinds: []wk{{OpSet, 26}, {OpSetR, 2}, {OpDel, 8}, {OpFlush, 12}, {OpRevert, 6}, {OpReopen, 6}, {OpEvict, 6}, {OpGet, 4}, {OpGetItem, 3}, {OpExist, 1},
		{OpMin, 2}, {OpMax, 1}, {OpTotals, 1}, {OpLen, 1}, {OpVisit, 8}, {OpBlock, 1}, {OpRandom, 1}, {OpSnap, 4}, {OpSnapClose, 3}, {OpSnapRev, 2},
		{OpCopyTo, 3}, {OpSetColl, 2}, {OpRmColl, 1}, {OpWrite, 3}, {OpSnapBad, 3}, {OpNames, 1}, {OpMisc, 5}},
}

var profRecycle = &Profile{
	Name: "C10-recycle", MinOps: 3, MaxOps: 45, NColls: 2, MemPct: 40, Snaps: true, Nested: true, Stores: 2, BlockMutations: true,
	Kinds: []wk{{OpSet, 28}, {OpSetR, 2}, {OpDel, 12}, {OpSnap, 10}, {OpSnapClose, 9}, {OpSetColl, 6}, {OpRmColl, 4}, {OpChurn, 9}, {OpVisit, 8},
		{OpFlush, 4}, {OpEvict, 4}, {OpClose, 1}, {OpIter, 2}, {OpGet, 2}, {OpBlock, 3}, {OpRandom, 3}},
}

var profCopy = &Profile{
	Name: "C11-copy", MinOps: 3, MaxOps: 40, NColls: 3, MemPct: 15, Cmps: true, Snaps: true, BigVals: true, BigKeys: true, Bulk: 1, Framed: 10,
	Kinds: []wk{{OpSet, 40}, {OpDel, 6}, {OpFlush, 8}, {OpEvict, 8}, {OpReopen, 4}, {OpSnap, 4}, {OpSetColl, 4}, {OpCopyTo, 22}},
}

var profNames = &Profile{
	Name: "C12-names", MinOps: 2, MaxOps: 45, NColls: 4, MemPct: 15, Cmps: true, HugeNames: true, Snaps: true,
	Kinds: []wk{{OpSetColl, 20}, {OpRmColl, 12}, {OpNames, 6}, {OpSet, 26}, {OpDel, 8}, {OpFlush, 8}, {OpReopen, 6}, {OpEvict, 3}, {OpChurn, 5}, {OpGet, 3}, {OpSnap, 4}, {OpSnapClose, 3}},
}

var profTree = &Profile{
	Name: "C13-tree", MinOps: 2, MaxOps: 45, NColls: 2, MemPct: 25, Cmps: true, Monotone: 70, Framed: 20, Bulk: 1, BigKeys: true,
	Kinds: []wk{{OpSet, 44}, {OpSetR, 4}, {OpDel, 16}, {OpFlush, 10}, {OpEvict, 8}, {OpReopen, 6}, {OpVisit, 4}},
}

var profFormat = &Profile{
	Name: "C14-format", MinOps: 2, MaxOps: 40, NColls: 4, BigKeys: true, BigVals: true, Hostile: true, Cmps: true, HugeNames: true, Bulk: 2, Framed: 12,
	Kinds: []wk{{OpSet, 36}, {OpSetR, 3}, {OpDel, 10}, {OpFlush, 18}, {OpEvict, 4}, {OpReopen, 6}, {OpSetColl, 6}, {OpRmColl, 3}, {OpCopyTo, 4}, {OpRevert, 3}},
}

var profRefCount = &Profile{
	Name: "C15-refcount", MinOps: 3, MaxOps: 45, NColls: 2, MemPct: 15, Snaps: true, ReopenNoDrop: true, EndOnly: 60, Nested: true,
	// (no Get inside visitors either: Get keeps its item referenced by design)
	NestedKinds: []string{OpGetItem, OpGetItem, OpMin, OpMax, OpExist, OpVisit, OpSet, OpDel, OpEvict, OpEvict, OpSnap, OpSnapClose, OpFlush, OpSetColl, OpRmColl},
	Kinds: []wk{{OpSet, 28}, {OpSetR, 3}, {OpDel, 10}, {OpGetItem, 6}, {OpExist, 2}, {OpMin, 3}, {OpMax, 3}, {OpVisit, 14}, {OpLen, 2}, {OpBlock, 2}, {OpRandom, 2},
		{OpEvict, 8}, {OpFlush, 13}, {OpReopen, 7}, {OpSnap, 6}, {OpSnapClose, 5}, {OpSetColl, 3}, {OpClose, 1}, {OpBadSet, 1}, {OpRmColl, 2}, {OpRevert, 3}, {OpCopyTo, 2}},
}

var profIter = &Profile{
	Name: "C18-iter", MinOps: 3, MaxOps: 35, NColls: 2, MemPct: 25, Nested: true, Snaps: true, BlockMutations: true,
	Kinds: []wk{{OpSet, 36}, {OpDel, 6}, {OpFlush, 5}, {OpEvict, 6}, {OpReopen, 2}, {OpIter, 26}, {OpVisit, 16}, {OpSnap, 2}, {OpSnapClose, 2}, {OpBlock, 2}, {OpRandom, 2}, {OpLen, 1}},
}

var profLazy = &Profile{
	Name: "C19-lazy", MinOps: 6, MaxOps: 60, NColls: 2, BigVals: true, EndOnly: 80, Cmps: true,
	Kinds: []wk{{OpSet, 34}, {OpSetR, 3}, {OpDel, 8}, {OpFlush, 10}, {OpEvict, 8}, {OpReopen, 8}, {OpGetItem, 8}, {OpMin, 3}, {OpMax, 3}, {OpVisit, 8},
		{OpExist, 4}, {OpLen, 2}, {OpGet, 3}, {OpTotals, 1}, {OpMisc, 3}},
}

// Specs lists the history-based properties.
var Specs = map[string]*Spec{}

func init() {
	reg := func(s *Spec) {
		s.Opts.Prop = s.Prop
		s.Assumptions = append(append([]string{}, commonAssumptions...), s.Assumptions...)
		Specs[s.Prop] = s
	}
	reg(&Spec{Prop: "C01", Profile: profMap,
		NonTrivial: func(c *Case, ev map[string]int) bool {
			return any(ev, "overwrite_lower", "overwrite_tied") && has(ev, "mut_cache_mut", "delete_present")
		},
		Rule: "rapid-generated histories (1-60 ops, <=3 collections) over SetItem/Set/Delete/Get/GetItem/Exist/Min/Max/GetTotals/invalid SetItem/Flush/EvictSomeItems/re-open, file-backed and memory-only; every return value and (in 75% of cases after every op, otherwise at the end) the full contents of every collection are compared with a reference map. Non-trivial = at least one overwrite at tied-or-lower priority AND an effective evict/flush/re-open between two mutations of the same collection AND a delete of a present key; distinct by FNV-64 of the case JSON."})
	reg(&Spec{Prop: "C02", Profile: profDurable, Opts: RunOpts{Probe: true, RevertPoints: true},
		NonTrivial: func(c *Case, ev map[string]int) bool {
			return ev["flush_changed"] >= 2 && has(ev, "reopen_with_pending") && ev["reopen"] >= 1 && ev["flush"] >= 2
		},
		Rule: "histories with Flush anywhere, collection create/remove, and two kinds of re-open: after every op a copy of the file image is opened in a fresh Store and must equal the model at the last successful Flush (names, keys, values, priorities, totals, min/max); 're-open' ops continue the history on a re-opened store. Non-trivial = >=2 flushes that changed the durable state, a re-open with unflushed changes pending, and the history continuing afterwards."})
	reg(&Spec{Prop: "C04", Profile: profSnap, Opts: RunOpts{Probe: true},
		NonTrivial: func(c *Case, ev map[string]int) bool {
			return any(ev, "snapclose_with_others_open", "snaprevert") && has(ev, "mut_after_release", "snap") && ev["snap"] >= 2
		},
		Rule: "histories on the original (mutations, Flush, evict, SetCollection, RemoveCollection, Close) interleaved with Snapshot (of the original or of a snapshot, <=4 open), reads, FlushRevert, Close and rejected writes on snapshots; after every op every open snapshot is re-read completely and compared with the model frozen at Snapshot() time, the original with the live model, the file with the last flush. Non-trivial = >=2 snapshots, one closed (while another stays open) or reverted, and the original mutated afterwards.",
		Assumptions: []string{"FlushRevert on the original is excluded while snapshots are open (documented to invalidate them)"}})
	reg(&Spec{Prop: "C06", Profile: profRange,
		NonTrivial: func(c *Case, ev map[string]int) bool { return has(ev, "visit_inside_evicted") && ev["visit"] >= 3 },
		Rule: "contents built by generated histories (all cache states: cached, evicted, never loaded after re-open), comparator in {bytes, reverse, shortlex}; then range queries on the collection or on a snapshot of it through all six APIs (VisitItemsAscend/Descend, Ex variants, IterateAscend/Descend) with targets nil/empty/present/absent/below/above, both value modes, early stop; delivered (key,priority,value) sequence == model range, no call after false, Ex depths == true depths (full-scan consistency, binary-tree validity, hook walk). Non-trivial = >=3 items, target strictly inside the key range and at least one item not cached when the visit started."})
	reg(&Spec{Prop: "C08", Profile: profRevert, Opts: RunOpts{Probe: true, RevertPoints: true},
		NonTrivial: func(c *Case, ev map[string]int) bool {
			return (ev["flush_changed"] >= 2 && ev["revert"] >= 2) || has(ev, "revert_to_empty", "flush_changed")
		},
		Rule: "mutate/Flush/re-open/FlushRevert histories (reverts past the first flush, with unflushed changes pending, right after re-open, on memory-only stores); after each revert: contents == model flush stack after pop, file length == end of that flush's root record (0 if none), a fresh store on a copy of the file agrees; termination by watchdog. Non-trivial = (>=2 state-changing flushes and >=2 reverts) or a revert that reaches the empty store after a state-changing flush."})
	reg(&Spec{Prop: "C09", Profile: profMonitor, Opts: RunOpts{Monitor: true, RevertPoints: true},
		NonTrivial: func(c *Case, ev map[string]int) bool {
			return ev["flush"] >= 2 && any(ev, "revert", "reopen") && ev["mon_writes"] > 0 && any(ev, "visit_over_evicted", "evict_effective")
		},
		Rule: "file-backed histories mixing every entry point; every WriteAt/Truncate in the StoreFile call log is attributed to the API call in progress: writes only during Flush (and at offsets >= end of the last durable root record), Truncate only during FlushRevert on the writable store and only to the end of a root record or 0, zero writes during open/reads/visits/evict/Snapshot/snapshot ops/CopyTo-source and during the harness's own full read-back; bytes below the durable end compared before/after every op. Non-trivial = >=2 flushes, a revert or re-open, at least one monitored write, and reads on evicted data.",
		Assumptions: []string{"the 'for all call paths' part of the property is covered dynamically over generated histories, not over programs"}})
	reg(&Spec{Prop: "C10", Profile: profRecycle, Opts: RunOpts{FreeCheck: true},
		NonTrivial: func(c *Case, ev map[string]int) bool {
			return any(ev, "snapclose", "coll_replace_nonempty", "coll_remove_nonempty", "nested_ops") && has(ev, "mut_after_release", "churn")
		},
		Rule: "up to 3 stores in one process sharing gkvlite's global free lists; snapshots opened/closed in any order, SetCollection on existing names, RemoveCollection, Close, visits whose callbacks run nested ops (mutations, snapshot close, RemoveCollection), churn in unrelated stores; after every op all open handles == their models, unrelated stores undisturbed, and (hook) no node reachable from a live version is on the free list or zeroed. Non-trivial = something was released (snapshot closed / collection replaced or removed while non-empty / nested ops) followed by a mutation and churn."})
	reg(&Spec{Prop: "C11", Profile: profCopy,
		NonTrivial: func(c *Case, ev map[string]int) bool { return has(ev, "copyto_nontrivial") },
		Rule: "source built by a generated history (<=3 collections incl. empty ones, comparators), source kind in {writable unflushed, flushed+evicted, snapshot, re-opened}, flushEvery in -1..40, file or memory destination; returned store == source model; for flushEvery>0 the destination file re-opens to the same state, decodes independently, holds no item record unused by the final state, every byte accounted for; source contents, source file bytes and source write log unchanged. Non-trivial = >=2 non-empty collections, some source items evicted, 1 <= flushEvery <= n."})
	reg(&Spec{Prop: "C12", Profile: profNames, Opts: RunOpts{Probe: true, FreeCheck: true},
		NonTrivial: func(c *Case, ev map[string]int) bool {
			return has(ev, "coll_replace_nonempty", "mut_after_replace") && any(ev, "coll_remove_nonempty", "churn")
		},
		Rule: "SetCollection (new / existing / comparator change on <=1 item), RemoveCollection (present/absent), GetCollectionNames, mutations through the current handle, Flush / re-open anywhere, snapshots opened and closed in between (they pin the versions being replaced or removed and must keep their frozen contents); names == sorted model names and contents through fresh handles == model after every op, other collections untouched, a fresh store on a copy of the file shows exactly the last Flush. Non-trivial = a non-empty cached collection was replaced, then mutated, plus a non-empty removal or churn.",
		Assumptions: []string{"a handle is not used after it was replaced or removed (undocumented)", "a comparator with a different order is installed only over <=1 item"}})
	reg(&Spec{Prop: "C13", Profile: profTree, Opts: RunOpts{TreeCheck: true},
		NonTrivial: func(c *Case, ev map[string]int) bool {
			return has(ev, "canonical_checked_4plus", "delete_present", "overwrite_higher")
		},
		Rule: "histories on <=2 collections (comparators bytes/reverse/shortlex, 70% without lowering overwrites); after every op: keys strictly ascending, reported depths form a binary tree, every cached node's numNodes/numBytes == 1+children / item+children (uncached children read from the file bytes), heap order and - with distinct priorities - depth == the unique treap's depth computed from the model (asserted only while the collection saw no lowering overwrite). Non-trivial = canonical shape checked on >=4 items with >=1 delete and >=1 raising overwrite."})
	reg(&Spec{Prop: "C14", Profile: profFormat, Opts: RunOpts{Decode: true, RevertPoints: true},
		NonTrivial: func(c *Case, ev map[string]int) bool {
			return has(ev, "decoded_multi", "emptyval") && ev["flush"] >= 2
		},
		Rule: "every flushed image of generated histories (keys up to 65535 bytes, empty and 4 KiB values, values containing magic markers, all name sets) is parsed by an independent decoder with literal layout constants: root-record framing, JSON shape, 52-byte nodes after children and item, self-delimiting items, exact persisted aggregates; decoded state == model; every byte of the file accounted for by some root record. Non-trivial = >=2 flushes, >=2 collections in the last one, and an empty value stored."})
	reg(&Spec{Prop: "C15", Profile: profRefCount, Opts: RunOpts{RefCount: true},
		NonTrivial: func(c *Case, ev map[string]int) bool {
			return has(ev, "visit_over_evicted", "refcount_balanced_at_close") && any(ev, "snapclose", "reopen")
		},
		Rule: "histories with ItemAlloc/ItemAddRef/ItemDecRef counting callbacks installed; the harness plays the application (own reference on items it creates, releases every item returned by GetItem/Min/Max, borrows items in visitors); no DecRef below zero, every returned / visitor-passed / cached-and-reachable item has count>0, all counts 0 once store and snapshots are closed. Non-trivial = file-backed visit over evicted items, balance verified at a close, and a snapshot closed or store re-opened.",
		Assumptions: []string{"Get() is not used: it hands the value buffer to the caller and therefore keeps the item referenced by design", "CopyTo and file faults are outside the property's list"}})
	reg(&Spec{Prop: "C18", Profile: profIter, Opts: RunOpts{FreeCheck: true, RefsQuiescent: true},
		NonTrivial: func(c *Case, ev map[string]int) bool {
			return any(ev, "iter_closed_inside", "iter_abandoned_inside", "nested:set", "nested:del")
		},
		Rule: "iterator scripts (Next/Close in any order, Close twice, Next after Close/exhaustion, up to 3 iterators interleaved, mutations by the same goroutine while iterators are open, a memory-only snapshot store closed under its iterators mid-walk) and visits whose callbacks call reads, nested visits, Snapshot, SetItem/Delete/Flush/Evict on the same store; delivered sequence == model range, Next()==false after end, Err()==nil, producer goroutines gone (bounded wait), version reference count back to its value, no watchdog hit. Non-trivial = Close/abandon strictly inside the range or a mutation nested in a visitor."})
	reg(&Spec{Prop: "C19", Profile: profLazy, Opts: RunOpts{Lazy: true},
		NonTrivial: func(c *Case, ev map[string]int) bool {
			return ev["lazy_reads_checked"] > 0 && has(ev, "lazy_open_checked") && ev["flush"] >= 1
		},
		Rule: "files produced by generated histories, re-opened; the StoreFile read log of every key-only op (GetItem/Min/Max/visits with withValue=false, Exist, Len, Set, Delete, Evict) is intersected with the value byte ranges the independent decoder computed from every flush: must be empty; reads during NewStore on a file ending in a root record must lie inside that record and number <= 8. Non-trivial = at least one key-only op actually read from the file and an open was checked."})
}
