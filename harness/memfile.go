package verifharness

import (
	"bytes"
	"errors"
	"fmt"
	"io"
	"os"
	"sync"
	"time"
)

// IOKind names a StoreFile method.
type IOKind uint8

const (
	IORead IOKind = iota
	IOWrite
	IOStat
	IOTrunc
)

func (k IOKind) String() string {
	return [...]string{"ReadAt", "WriteAt", "Stat", "Truncate"}[k]
}

// IORec is one logged StoreFile call.
type IORec struct {
	Seq    int    // global call number (shared through the FaultPlan), 1-based
	Kind   IOKind //
	Off    int64  // offset (size for Truncate)
	Len    int    // requested length
	API    int    // index of the harness-level op in progress
	Failed bool   // the injected fault fired on this call
	Rep    int    // further reads of the same length, each one byte lower, folded into this record (a byte-wise backward scan)
	Data   []byte // payload of a WriteAt (only when KeepData)
}

// FaultPlan is shared by all files of a case so that "the k-th file call of
// the execution" is well defined when there are two files (CopyTo).
type FaultPlan struct {
	Active bool // only calls made while Active are counted and may fail
	Calls  int  // calls seen so far
	FailAt int  // 1-based call number that fails (0 = never)
	Torn   int  // for a failing WriteAt: 0 nothing written, 1 one byte, 2 half, 3 all but one byte
	Fired  bool // the fault has fired
	// FiredKind/FiredLen describe the failed call.
	FiredKind IOKind
	Count     [4]int // calls per kind
	OnCall    func(IOKind, int) // observer of every counted call (kind, requested length)
	FiredOp   int          // index of the op during which the fault fired
}

var errInjected = errors.New("verif: injected file error")

// MemFile is an in-memory gkvlite.StoreFile with a call log, optional
// single-fault injection and an optional scheduler yield before each call.
// EOF semantics of ReadAt follow os.File (short read => io.EOF).
type MemFile struct {
	B        []byte
	Log      []IORec
	KeepLog  bool
	KeepData bool
	CurAPI   int
	Plan     *FaultPlan
	Yield    func(point string)
	Name     string
	// Mirror, when set, is a real file that receives every write and truncate
	// and answers every read and Stat a second time: any difference between the
	// in-memory model of a file and os.File is a harness defect (mirrorDivergence).
	Mirror *os.File
	// Mu, when set, serialises all calls (real-parallel engine: gkvlite requires a
	// concurrency-safe StoreFile there).
	Mu *sync.Mutex
}

func (m *MemFile) lock() func() {
	if m.Mu == nil {
		return func() {}
	}
	m.Mu.Lock()
	return m.Mu.Unlock
}

// mirrorDivergence is the panic value raised when MemFile and os.File disagree.
type mirrorDivergence struct{ msg string }

func (m *MemFile) diverge(format string, a ...interface{}) {
	panic(mirrorDivergence{fmt.Sprintf("MemFile diverges from os.File: "+format, a...)})
}

// NewMemFile returns an empty file that logs calls.
func NewMemFile(name string) *MemFile {
	return &MemFile{Name: name, KeepLog: true}
}

type memFI struct{ sz int64 }

func (f memFI) Name() string       { return "memfile" }
func (f memFI) Size() int64        { return f.sz }
func (f memFI) Mode() os.FileMode  { return 0644 }
func (f memFI) ModTime() time.Time { return time.Time{} }
func (f memFI) IsDir() bool        { return false }
func (f memFI) Sys() interface{}   { return nil }

// tick registers a call; it returns true if the call must fail.
func (m *MemFile) tick(kind IOKind, off int64, n int, data []byte) (rec *IORec, fail bool) {
	if m.Yield != nil {
		m.Yield("io")
	}
	seq := 0
	if m.Plan != nil && m.Plan.Active {
		m.Plan.Calls++
		m.Plan.Count[kind]++
		seq = m.Plan.Calls
		if m.Plan.OnCall != nil {
			m.Plan.OnCall(kind, n)
		}
		if m.Plan.FailAt == seq {
			fail = true
			m.Plan.Fired = true
			m.Plan.FiredKind = kind
		}
	}
	if m.KeepLog && kind == IORead && !fail && len(m.Log) > 0 {
		// gkvlite looks for the last root record with one small read per byte; fold
		// such a run into one record covering [Off, Off+Len+Rep)
		if l := &m.Log[len(m.Log)-1]; l.Kind == IORead && !l.Failed && l.Len == n && l.API == m.CurAPI && l.Off-1 == off {
			l.Off = off
			l.Rep++
			return l, false
		}
	}
	if m.KeepLog {
		r := IORec{Seq: seq, Kind: kind, Off: off, Len: n, API: m.CurAPI, Failed: fail}
		if m.KeepData && data != nil {
			r.Data = append([]byte(nil), data...)
		}
		m.Log = append(m.Log, r)
		rec = &m.Log[len(m.Log)-1]
	}
	return rec, fail
}

// done is the second yield point of a file call: after the call took effect
// and before its result reaches gkvlite (a blocking call may be overtaken both
// before it starts and before it returns).
func (m *MemFile) done() {
	if m.Yield != nil {
		m.Yield("io-done")
	}
}

func (m *MemFile) ReadAt(p []byte, off int64) (int, error) {
	defer m.lock()()
	_, fail := m.tick(IORead, off, len(p), nil)
	defer m.done()
	if fail {
		return 0, errInjected
	}
	if off < 0 {
		return 0, errors.New("memfile: negative offset")
	}
	n, err := m.readMem(p, off)
	if m.Mirror != nil {
		q := make([]byte, len(p))
		n2, err2 := m.Mirror.ReadAt(q, off)
		if n2 != n || (err == nil) != (err2 == nil) || (err2 != nil && err2 != io.EOF) || !bytes.Equal(p[:n], q[:n2]) {
			m.diverge("ReadAt(len %d, off %d) = (%d, %v) in memory, (%d, %v) on the real file", len(p), off, n, err, n2, err2)
		}
	}
	return n, err
}

func (m *MemFile) readMem(p []byte, off int64) (int, error) {
	if off >= int64(len(m.B)) {
		if len(p) == 0 {
			return 0, nil
		}
		return 0, io.EOF
	}
	n := copy(p, m.B[off:])
	if n < len(p) {
		return n, io.EOF
	}
	return n, nil
}

func (m *MemFile) writeRaw(p []byte, off int64) {
	if need := off + int64(len(p)); need > int64(len(m.B)) {
		if need > int64(cap(m.B)) {
			nb := make([]byte, len(m.B), need+need/2+64)
			copy(nb, m.B)
			m.B = nb
		}
		m.B = m.B[:need]
	}
	copy(m.B[off:], p)
}

func (m *MemFile) WriteAt(p []byte, off int64) (int, error) {
	defer m.lock()()
	_, fail := m.tick(IOWrite, off, len(p), p)
	defer m.done()
	if off < 0 {
		return 0, errors.New("memfile: negative offset")
	}
	if fail {
		j := 0
		switch m.Plan.Torn {
		case 1:
			j = 1
		case 2:
			j = len(p) / 2
		case 3:
			j = len(p) - 1
		default:
			if m.Plan.Torn >= 10 {
				j = m.Plan.Torn - 10 // explicit number of bytes that reach the file
			}
		}
		if j > len(p) {
			j = len(p)
		}
		if j < 0 {
			j = 0
		}
		if j > 0 {
			m.writeRaw(p[:j], off)
			m.mirrorWrite(p[:j], off)
		}
		return j, errInjected
	}
	if len(p) > 0 {
		m.writeRaw(p, off)
		m.mirrorWrite(p, off)
	}
	return len(p), nil
}

func (m *MemFile) Stat() (os.FileInfo, error) {
	defer m.lock()()
	_, fail := m.tick(IOStat, 0, 0, nil)
	defer m.done()
	if fail {
		return nil, errInjected
	}
	if m.Mirror != nil {
		fi, err := m.Mirror.Stat()
		if err != nil || fi.Size() != int64(len(m.B)) {
			m.diverge("Stat: %d bytes in memory, real file %v (%v)", len(m.B), fi, err)
		}
	}
	return memFI{int64(len(m.B))}, nil
}

func (m *MemFile) mirrorWrite(p []byte, off int64) {
	if m.Mirror != nil {
		if n, err := m.Mirror.WriteAt(p, off); err != nil || n != len(p) {
			m.diverge("WriteAt(len %d, off %d) on the real file: %d, %v", len(p), off, n, err)
		}
	}
}

func (m *MemFile) Truncate(sz int64) error {
	defer m.lock()()
	_, fail := m.tick(IOTrunc, sz, 0, nil)
	defer m.done()
	if fail {
		return errInjected
	}
	if sz < 0 {
		return errors.New("memfile: negative size")
	}
	if sz <= int64(len(m.B)) {
		m.B = m.B[:sz]
	} else {
		m.B = append(m.B, make([]byte, sz-int64(len(m.B)))...)
	}
	if m.Mirror != nil {
		if err := m.Mirror.Truncate(sz); err != nil {
			m.diverge("Truncate(%d) on the real file: %v", sz, err)
		}
	}
	return nil
}

// Image returns a copy of the current bytes.
func (m *MemFile) Image() []byte {
	defer m.lock()()
	return append([]byte(nil), m.B...)
}

// CloneQuiet returns a new non-logging file holding a copy of the bytes.
func (m *MemFile) CloneQuiet() *MemFile {
	return &MemFile{B: m.Image(), Name: m.Name + "-copy"}
}

// FileFromImage returns a non-logging file over a private copy of img.
func FileFromImage(img []byte) *MemFile {
	return &MemFile{B: append([]byte(nil), img...), Name: "image"}
}
