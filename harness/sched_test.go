package verifharness

import (
	"os"
	"path/filepath"
	"testing"

	"pgregory.net/rapid"
)

var profSchedPre = &Profile{
	Name: "C05-sched", MinOps: 0, MaxOps: 14, NColls: 2, EndOnly: 100, PlainNames: true,
	Kinds: []wk{{OpSet, 60}, {OpDel, 8}, {OpFlush, 14}, {OpEvict, 8}, {OpReopen, 8}, {OpSet, 2}},
}

const c05Rule = "harness-owned cooperative scheduler: 1 mutator (SetItem/Delete/Evict on collections a,b; a unique value per op), 1 flusher (0-3 Flush, file image captured right after each), 1-3 readers (Get, Min, Max, GetTotals, key-only GetItem/Exist, whole ascending/descending visits with and without values, Snapshot+full read+Close) run as goroutines of which exactly one runs at a time; control changes hands only at yield points (every StoreFile call - before it starts and after it took effect -, every visitor callback, gkvlite's verifYield points: after a version pin, before/after rootCAS, between collections inside Flush and Snapshot, between the two reads of an itemLoc) according to a rapid-generated schedule; pre-state (loaded, flushed, evicted, re-opened) generated too. Oracle (post hoc, against the complete version log): every read result equals f(V) for ONE version V that could have been current inside the call's window; mutator calls never fail; final contents == last version; every captured flush image re-opens, per collection, to a version current during that Flush, with capture instants non-decreasing in collection-name order; no panic, no hang (watchdog). Non-trivial = >=1 reader window overlapping a mutation of the same collection and >=2 context switches; distinct by case hash."

func genSchedCase() *rapid.Generator[Case] {
	pre := GenCase(profSchedPre)
	keys := KeyPool[:8]
	return rapid.Custom(func(t *rapid.T) Case {
		c := pre.Draw(t, "pre")
		c.Cfg.Mem = false
		key := func() []byte { return keys[uni(t, len(keys), "key")] }
		var mut []Op
		nm := rapid.IntRange(1, 10).Draw(t, "nmut")
		for i := 0; i < nm; i++ {
			r := uni(t, 10, "mkind")
			o := Op{C: uni(t, 2, "coll")}
			switch {
			case r < 6:
				o.K, o.Key, o.Prio = OpSet, key(), int32(rapid.IntRange(0, 5).Draw(t, "prio"))
			case r < 9:
				o.K, o.Key = OpDel, key()
			default:
				o.K = OpEvict
			}
			mut = append(mut, o)
		}
		nf := rapid.IntRange(0, 3).Draw(t, "nflush")
		fl := make([]Op, nf)
		for i := range fl {
			fl[i] = Op{K: OpFlush}
		}
		c.Cfg.Workers = [][]Op{mut, fl}
		nr := rapid.IntRange(1, 3).Draw(t, "nreaders")
		for w := 0; w < nr; w++ {
			var ops []Op
			n := rapid.IntRange(1, 4).Draw(t, "nreads")
			for i := 0; i < n; i++ {
				o := Op{C: uni(t, 2, "coll")}
				switch uni(t, 11, "rkind") {
				case 8:
					o.K, o.Key = OpGetItem, key() // key-only lookup
				case 9:
					o.K, o.Key = OpExist, key()
				case 10:
					o.K, o.Flag, o.N, o.Key = OpVisit, uni(t, 2, "dir"), 1, key() // key-only visit
				case 0, 1:
					o.K, o.Key = OpGet, key()
				case 2:
					o.K = OpMin
				case 3:
					o.K = OpMax
				case 4:
					o.K = OpTotals
				case 5, 6:
					o.K, o.Flag = OpVisit, uni(t, 2, "dir")
					if rapid.Bool().Draw(t, "fromstart") && o.Flag == 0 {
						o.Key = []byte{}
					} else {
						o.Key = key()
					}
				default:
					o.K = OpSnap
				}
				ops = append(ops, o)
			}
			c.Cfg.Workers = append(c.Cfg.Workers, ops)
		}
		// schedule: uniform picks among the runnable workers; in a third of the cases
		// the picks come in runs (a worker keeps the baton for a few yield points); in
		// another third a priority schedule with 0-6 change points (SchedMode 1)
		style := uni(t, 3, "schedstyle")
		if style == 2 {
			c.Cfg.SchedMode = 1
			for i := 0; i < 6; i++ {
				c.Cfg.Sched = append(c.Cfg.Sched, uni(t, 100, "prio"))
			}
			depth := []int{12, 40, 100, 250}[uni(t, 4, "depth")]
			ncp := uni(t, 7, "nchange")
			for i := 0; i < ncp; i++ {
				c.Cfg.Sched = append(c.Cfg.Sched, uni(t, depth, "changeat"))
			}
			return c
		}
		n := rapid.IntRange(0, 260).Draw(t, "schedlen")
		runs := style == 1
		for len(c.Cfg.Sched) < n {
			pick := uni(t, 6, "pick")
			rep := 1
			if runs {
				rep = 1 + uni(t, 6, "run")
			}
			for i := 0; i < rep && len(c.Cfg.Sched) < n; i++ {
				c.Cfg.Sched = append(c.Cfg.Sched, pick)
			}
		}
		return c
	})
}

func TestC05(t *testing.T) {
	st := NewStats("C05", c05Rule, append(append([]string{}, commonAssumptions...),
		"interleavings are explored at yield-point granularity; finer-grained data races between two yield points are outside this engine",
		"one mutating goroutine and one flushing goroutine per store, as the README requires"))
	defer func() {
		if p := outPath(); p != "" {
			st.Write(p)
		}
	}()
	gen := genSchedCase()
	rapid.Check(t, func(rt *rapid.T) {
		c := gen.Draw(rt, "case")
		v, ev := guarded("C05", c, func() (*Violation, map[string]int) { return RunSched(c) })
		if v != nil {
			p := saveFailure("C05", c, v)
			rt.Fatalf("VIOLATION-CANDIDATE property=C05 sig=%q case=%s\n%s\ncase: %s", v.Sig, p, v.Error(), c.String())
		}
		nontrivial := ev["reads_overlapping_mutation"] >= 1 && ev["sched_switches"] >= 2
		st.Note(c.Hash(), ev, nontrivial, func() string { return c.String() })
	})
}

// TestC19Sched: C19's key-only rule under concurrency.  The schedules of the C05
// engine are generated with a share of key-only reader ops (GetItem(k,false),
// Exist, key-only visits); the file reads each of them issued (attributed
// through the scheduler, which knows which worker runs) must not touch the value
// bytes of anything flushed before the concurrent phase began - also when
// another reader loads, or the mutator evicts, the same item in between.
func TestC19Sched(t *testing.T) {
	st := NewStats("C19", "concurrent phase: schedules of the cooperative scheduler (1 mutator, 1 flusher, 1-3 readers; yield points at every file call - before and after -, visitor callback and verifYield point) in which readers run key-only ops (GetItem(k,false), Exist, key-only ascending/descending visits) beside with-value readers, evictions and flushes on a re-opened/evicted pre-state; every ReadAt issued by a key-only op is intersected with the value byte ranges (independent decoder) of all states flushed before the phase: must be empty. Non-trivial = at least one key-only op actually read from the file with >=2 context switches.", commonAssumptions)
	defer func() {
		if p := outPath(); p != "" {
			st.Write(p)
		}
	}()
	gen := genSchedCase()
	rapid.Check(t, func(rt *rapid.T) {
		c := gen.Draw(rt, "case")
		c.Cfg.Profile = "C19-sched"
		v, ev := guarded("C19", c, func() (*Violation, map[string]int) { return RunSched(c) })
		if v != nil {
			p := saveFailure("C19", c, v)
			rt.Fatalf("VIOLATION-CANDIDATE property=C19 sig=%q case=%s\n%s\ncase: %s", v.Sig, p, v.Error(), c.String())
		}
		st.Note(c.Hash(), ev, ev["keyonly_reads_checked"] > 0 && ev["sched_switches"] >= 2, func() string { return c.String() })
	})
}

// TestC05Par: the same workers as real goroutines running side by side (no
// scheduler) over a mutex-protected file.  This reaches what the cooperative
// scheduler cannot: interleavings inside the regions between two yield points,
// lock-order inversions, unsynchronised shared maps.  The oracle is the same
// post-hoc version-interval validation (windows from an atomic clock), plus: no
// panic, no fatal runtime error, no deadlock (watchdog).  A failure cannot be
// replayed exactly; the saved case is re-run in a loop to re-find it.
func TestC05Par(t *testing.T) {
	st := NewStats("C05", "real-parallel phase: the workers of the scheduler engine (1 mutator incl. SetCollection/RemoveCollection of a third collection, 1 flusher, 1-3 readers whose visitor callbacks also call AllocStats/GetCollectionNames/Stats and a share of whose ops read through one snapshot taken before the phase) run as real goroutines side by side, each op list repeated 8-40 times; same post-hoc oracle with windows taken from an atomic clock; no panic, no fatal runtime error (concurrent map access), no deadlock (watchdog). Failures are re-searched by re-running the saved case up to 400 times. Non-trivial = at least one reader window overlapped a mutation.",
		append(append([]string{}, commonAssumptions...), "real-parallel failures are schedule dependent: a saved case is confirmed by re-running it, not by exact replay"))
	defer func() {
		if p := outPath(); p != "" {
			st.Write(p)
		}
	}()
	gen := genSchedCase()
	rapid.Check(t, func(rt *rapid.T) {
		c := gen.Draw(rt, "case")
		c.Cfg.Profile = "C05-par"
		c.Cfg.Sched = nil
		c.Cfg.SchedMode = 0
		c.Cfg.Extra = []int{8 + uni(rt, 33, "rep")}
		// a share of the reader ops go through one snapshot taken before the phase
		for wi := 2; wi < len(c.Cfg.Workers); wi++ {
			for j := range c.Cfg.Workers[wi] {
				if c.Cfg.Workers[wi][j].K != OpSnap && uni(rt, 10, "viasnap") < 3 {
					c.Cfg.Workers[wi][j].S = 1
				}
			}
		}
		// collection management by the mutating goroutine
		nadm := uni(rt, 4, "nadmin")
		replace := uni(rt, 4, "replacemode") == 0
		if replace {
			// collection replacement/removal beside readers: no Snapshot readers, no flusher
			if len(c.Cfg.Workers) > 1 {
				c.Cfg.Workers[1] = nil
			}
			for wi := 2; wi < len(c.Cfg.Workers); wi++ {
				for j := range c.Cfg.Workers[wi] {
					if c.Cfg.Workers[wi][j].K == OpSnap {
						c.Cfg.Workers[wi][j] = Op{K: OpGet, C: j % 2, Key: KeyPool[j%8]}
					}
				}
			}
			nadm++
		}
		for i := 0; i < nadm && len(c.Cfg.Workers) > 0; i++ {
			k := OpSetColl
			if replace {
				k = OpRmColl
			}
			mut := c.Cfg.Workers[0]
			pos := uni(rt, len(mut)+1, "admpos")
			mut = append(mut[:pos:pos], append([]Op{{K: k, C: 2}}, mut[pos:]...)...)
			c.Cfg.Workers[0] = mut
		}
		// journal the case first: a fatal runtime error kills the process
		os.MkdirAll(failDir(), 0755)
		SaveCase(filepath.Join(failDir(), "C05.journal.json"), c)
		v, ev := guarded("C05", c, func() (*Violation, map[string]int) { return RunSched(c) })
		if v != nil {
			p := saveFailure("C05", c, v)
			rt.Fatalf("VIOLATION-CANDIDATE property=C05 sig=%q case=%s\n%s\ncase: %s", v.Sig, p, v.Error(), c.String())
		}
		st.Note(c.Hash(), ev, ev["reads_overlapping_mutation"] >= 1, func() string { return c.String() })
	})
}
