package verifharness

import (
	"bytes"
	"fmt"
	"testing"

	"pgregory.net/rapid"
)

const c03Rule = "crash-point enumeration: each rapid-generated history (2-25 ops: SetItem/Set/Delete/Flush/evict/re-open/SetCollection/RemoveCollection, values incl. magic-marker fragments and run-time copies of the file's own root records; a final Flush is forced) runs once on a write-logging file; then for EVERY write i and EVERY byte count j in [0,len] the image 'writes 1..i-1 complete + first j bytes of write i' is rebuilt and opened with NewStore: no panic, contents == model of the last flush whose root-record write lies completely inside the image (all collections together), or empty store / 'couldn't find roots' if none; a fresh store on a copy agrees; every cut is checked a second time with junk appended (random bytes, marker fragments, truncated or relocated copies of the file's own root records, zeros, and records framed exactly for the position they lie at but wrong in one inner field: version, leading length, JSON body, one marker byte); tail sweep: the complete file of the first history of each shard (thorough: every 50th history) is re-opened with junk tails of every length in [kB-72, kB+24] for B in {4096..65536}, k in {1,2}. On every cut inside a root record (3 cut points) and on drawn other cuts a generated continuation (1-6 mutations + Flush) runs on the recovered store with the durability oracle on, and that flush is torn once more. evaluations = images opened; non-trivial = the cut lies strictly inside a flush that follows a completed flush with a different state; distinct by (history hash, i, j)."

func TestC03(t *testing.T) {
	st := NewStats("C03", c03Rule, append(append([]string{}, commonAssumptions...),
		"a crash leaves a prefix of the issued writes, the last one possibly torn at any byte (no reordering), optionally followed by junk that is not a complete self-consistent root record",
		"a value that is a complete self-consistent root record is excluded by the property's own wording; relocated or truncated copies are generated",
		"FlushRevert is not part of crash histories (C08)"))
	st.Extra["counts_units"] = "evaluations are crash images; -rapid.checks counts histories"
	st.Exhaustive = false
	histories, conts := 0, 0
	defer func() {
		st.Extra["histories"] = fmt.Sprint(histories)
		st.Extra["continuations"] = fmt.Sprint(conts)
		st.Extra["exhaustive_within_history"] = "every (write, byte) cut point of every generated history"
		if p := outPath(); p != "" {
			st.Write(p)
		}
	}()
	gen := GenCase(profCrash)
	genCont := GenCase(profCont)
	rapid.Check(t, func(rt *rapid.T) {
		c := gen.Draw(rt, "history")
		c.Cfg.Mem = false
		// run-time hostile values on some sets
		for i := range c.Ops {
			if c.Ops[i].K == OpSet && len(c.Ops[i].Val) > 0 && c.Ops[i].Val[0] >= 0xE8 {
				c.Ops[i].Flag = 1 + int(c.Ops[i].Val[0])%4
			}
		}
		c.Ops = append(c.Ops, Op{K: OpFlush})
		cont := genCont.Draw(rt, "continuation").Ops
		cont = append(cont, Op{K: OpFlush})
		extraCuts := rapid.SliceOfN(rapid.IntRange(0, 1<<20), 0, 3).Draw(rt, "extracuts")
		junkKind := uni(rt, 6, "junkkind")
		junkPick := rapid.IntRange(0, 1000).Draw(rt, "junkpick")
		junkRaw := rapid.SliceOfN(rapid.Byte(), 1, 40).Draw(rt, "junkraw")
		histories++

		var rec *crashRecording
		v, _ := guarded("C03", c, func() (*Violation, map[string]int) {
			v, r, ev := recordRun(c)
			rec = r
			return v, ev
		})
		if v != nil {
			v.Sig = "recording:" + v.Sig
			p := saveFailure("C03", c, v)
			rt.Fatalf("VIOLATION-CANDIDATE property=C03 sig=%q case=%s\n%s\ncase: %s", v.Sig, p, v.Error(), c.String())
		}
		base := c.Hash()
		// which (i,j) get a continuation
		contAt := map[[2]int]bool{}
		total := 0
		for i := range rec.writes {
			n := len(rec.writes[i].Data)
			total += n
			if rec.isRootWrite(i) {
				contAt[[2]int{i, 1}] = true
				contAt[[2]int{i, n / 2}] = true
				contAt[[2]int{i, n - 1}] = true
			}
		}
		for _, x := range extraCuts {
			if total == 0 {
				break
			}
			pos := x % total
			for i := range rec.writes {
				n := len(rec.writes[i].Data)
				if pos < n {
					contAt[[2]int{i, pos}] = true
					break
				}
				pos -= n
			}
		}
		check := func(i, j int) {
			var co []Op
			if contAt[[2]int{i, j}] {
				co = cont
				conts++
			}
			fc := c
			fc.Cfg.Extra = []int{i, j}
			if co != nil {
				fc.Cfg.Workers = [][]Op{co}
			}
			v, ev := guarded("C03", fc, func() (*Violation, map[string]int) { return rec.checkImage(c, i, j, co, nil) })
			if v != nil {
				p := saveFailure("C03", fc, v)
				rt.Fatalf("VIOLATION-CANDIDATE property=C03 sig=%q case=%s\n%s\ncase: %s", v.Sig, p, v.Error(), fc.String())
			}
			// the same cut with junk left behind it
			junk, ok := rec.junkFor(junkKind, junkPick, junkRaw, len(rec.imageAt(i, j)))
			if ok && i < len(rec.writes) && rec.isRootWrite(i) && bytes.HasPrefix(junk, rec.writes[i].Data[j:]) {
				ok = false // the junk would complete the torn root record: a complete, self-consistent record
				st.Excluded++
			}
			if ok {
				jc := fc
				jc.Cfg.Junk = junk
				jc.Cfg.Workers = nil
				vj, evj := guarded("C03", jc, func() (*Violation, map[string]int) { return rec.checkImage(c, i, j, nil, junk) })
				if vj != nil {
					p := saveFailure("C03", jc, vj)
					rt.Fatalf("VIOLATION-CANDIDATE property=C03 sig=%q case=%s\n%s\ncase: %s", vj.Sig, p, vj.Error(), jc.String())
				}
				evj["junk_variant"]++
				evj[fmt.Sprintf("junk_kind_%d", junkKind%6)]++
				st.Note(base^(uint64(i)*0x9E3779B97F4A7C15+uint64(j)*0xC2B2AE3D27D4EB4F+0x5bd1e995), evj, false, nil)
			}
			// non-trivial: cut strictly inside a flush that follows a completed flush with a different state
			nontrivial := false
			exp := rec.expectedAt(i, j)
			if len(exp) > 0 && i < len(rec.writes) {
				for _, f := range rec.flushes {
					if f.writes > i { // the flush this write belongs to
						nontrivial = !f.ms.Equal(exp[len(exp)-1].ms) && !(j == 0 && isFirstWriteOfFlush(rec, i))
						break
					}
				}
			}
			if co != nil {
				ev["continuation"]++
			}
			if i < len(rec.writes) && rec.isRootWrite(i) && j > 0 && j < len(rec.writes[i].Data) {
				ev["cut_inside_root_record"]++
			}
			h := base ^ (uint64(i)*0x9E3779B97F4A7C15 + uint64(j)*0xC2B2AE3D27D4EB4F)
			st.Note(h, ev, nontrivial, func() string { return fc.String() })
		}
		for i := range rec.writes {
			for j := 0; j < len(rec.writes[i].Data); j++ {
				check(i, j)
			}
			if len(rec.writes[i].Data) == 0 {
				check(i, 0)
			}
		}
		check(len(rec.writes), 0) // everything written

		// tail sweep (the first history of each shard; every 50th in the thorough
		// tier): the complete file followed by junk tails whose lengths cover the
		// neighbourhoods of the multiples of every power-of-two block size up to 64 KiB
		if histories == 1 || (thoroughTier && histories%50 == 0) {
			for _, n := range sweepLengths() {
				tc := c
				tc.Cfg.Note = "tail"
				tc.Cfg.Extra = []int{len(rec.writes), n}
				tc.Cfg.Junk = junkRaw
				v, ev := guarded("C03", tc, func() (*Violation, map[string]int) { return rec.checkTail(c, n, junkRaw) })
				if v != nil {
					p := saveFailure("C03", tc, v)
					rt.Fatalf("VIOLATION-CANDIDATE property=C03 sig=%q case=%s\n%s\ncase: %s", v.Sig, p, v.Error(), tc.String())
				}
				ev["tail_sweep_image"]++
				st.Note(base^(uint64(n)*0x9E3779B97F4A7C15+0x7a11), ev, false, nil)
			}
		}
	})
}

func isFirstWriteOfFlush(rec *crashRecording, i int) bool {
	if i == 0 {
		return true
	}
	for _, f := range rec.flushes {
		if f.writes == i {
			return true
		}
	}
	return false
}
