package verifharness

import (
	"encoding/binary"
	"encoding/json"
	"fmt"
	"os"
	"path/filepath"
	"sort"
	"sync"
	"time"
)

// Stats accumulates what one check process covered; it becomes one shard of
// the evidence file.
type Stats struct {
	mu          sync.Mutex
	Prop        string            `json:"property_id"`
	Evaluations int               `json:"evaluations"`
	NonTrivialN int               `json:"nontrivial_in_shard"`
	Labels      map[string]int    `json:"labels"` // cases in which the event occurred at least once
	Sums        map[string]int    `json:"sums"`   // total occurrences
	Samples     []string          `json:"samples"`
	Rule        string            `json:"rule"`
	Assumptions []string          `json:"assumptions"`
	Exhaustive  bool              `json:"exhaustive,omitempty"`
	Extra       map[string]string `json:"extra,omitempty"`
	Excluded    int               `json:"excluded_known,omitempty"`
	hashes      map[uint64]struct{}
	start       time.Time
}

// NewStats creates the accumulator for one property.
func NewStats(prop, rule string, assumptions []string) *Stats {
	return &Stats{Prop: prop, Rule: rule, Assumptions: assumptions, Labels: map[string]int{}, Sums: map[string]int{},
		hashes: map[uint64]struct{}{}, start: time.Now(), Extra: map[string]string{}}
}

// Note records one evaluated case.
func (s *Stats) Note(hash uint64, ev map[string]int, nontrivial bool, sample func() string) {
	s.mu.Lock()
	defer s.mu.Unlock()
	s.Evaluations++
	for k, v := range ev {
		if v > 0 {
			s.Labels[k]++
			s.Sums[k] += v
		}
	}
	if nontrivial {
		if _, dup := s.hashes[hash]; !dup {
			s.hashes[hash] = struct{}{}
			if len(s.Samples) < 5 && sample != nil {
				s.Samples = append(s.Samples, sample())
			}
		}
	}
}

// Write stores the shard as <path> (JSON) and <path>.hashes (sorted uint64s).
func (s *Stats) Write(path string) error {
	s.mu.Lock()
	defer s.mu.Unlock()
	s.NonTrivialN = len(s.hashes)
	if err := os.MkdirAll(filepath.Dir(path), 0755); err != nil {
		return err
	}
	hs := make([]uint64, 0, len(s.hashes))
	for h := range s.hashes {
		hs = append(hs, h)
	}
	sort.Slice(hs, func(i, j int) bool { return hs[i] < hs[j] })
	buf := make([]byte, 8*len(hs))
	for i, h := range hs {
		binary.LittleEndian.PutUint64(buf[8*i:], h)
	}
	if err := os.WriteFile(path+".hashes", buf, 0644); err != nil {
		return err
	}
	b, err := json.MarshalIndent(s, "", " ")
	if err != nil {
		return err
	}
	return os.WriteFile(path, b, 0644)
}

// outPath returns where this process must leave its shard ("" = nowhere).
func outPath() string { return os.Getenv("VERIF_OUT") }

// failDir is where failing cases are written.
func failDir() string {
	d := os.Getenv("VERIF_FAILDIR")
	if d == "" {
		d = os.TempDir()
	}
	return d
}

// saveFailure writes the failing case and its violation; the last one written
// during shrinking is rapid's minimal case.
func saveFailure(prop string, c Case, v *Violation) string {
	dir := failDir()
	os.MkdirAll(dir, 0755)
	p := filepath.Join(dir, prop+".case.json")
	SaveCase(p, c)
	b, _ := json.MarshalIndent(v, "", " ")
	os.WriteFile(filepath.Join(dir, prop+".viol.json"), b, 0644)
	return p
}

func hangBound() time.Duration {
	if s := os.Getenv("VERIF_HANG_S"); s != "" {
		var n int
		fmt.Sscanf(s, "%d", &n)
		if n > 0 {
			return time.Duration(n) * time.Second
		}
	}
	return 20 * time.Second
}

var (
	workerOnce sync.Once
	workerJobs chan func()
)

type runResult struct {
	v  *Violation
	ev map[string]int
}

// guarded runs f in its own goroutine under the termination watchdog.  If f
// does not return within the bound the case is saved and the process exits
// with status 3 (a spinning goroutine cannot be stopped); the driver then
// replays the saved case in a fresh process to confirm.
func guarded(prop string, c Case, f func() (*Violation, map[string]int)) (*Violation, map[string]int) {
	// One long-lived worker goroutine runs all cases, so that the number of
	// goroutines alive at the start of a case is stable (the iterator checks
	// compare runtime.NumGoroutine with that baseline).
	workerOnce.Do(func() {
		workerJobs = make(chan func(), 0)
		go func() {
			for j := range workerJobs {
				j()
			}
		}()
	})
	ch := make(chan runResult, 1)
	workerJobs <- func() {
		v, ev := f()
		ch <- runResult{v, ev}
	}
	tm := time.NewTimer(hangBound())
	defer tm.Stop()
	select {
	case r := <-ch:
		return r.v, r.ev
	case <-tm.C:
		v := &Violation{Prop: prop, Sig: "hang", Msg: fmt.Sprintf("the case did not terminate within %v", hangBound())}
		p := saveFailure(prop, c, v)
		fmt.Printf("HANG property=%s case=%s\n", prop, p)
		os.Exit(3)
	}
	return nil, nil
}
