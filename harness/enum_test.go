package verifharness

import (
	"bytes"
	"fmt"
	"math/rand"
	"os"
	"sort"
	"strconv"
	"strings"
	"testing"

	g "github.com/cbehopkins/gkvlite"
	"pgregory.net/rapid"
)

func shardOf() (int, int) {
	s := os.Getenv("VERIF_SHARD")
	if s == "" {
		return 0, 1
	}
	p := strings.SplitN(s, "/", 2)
	a, _ := strconv.Atoi(p[0])
	b, _ := strconv.Atoi(p[1])
	if b <= 0 {
		return 0, 1
	}
	return a, b
}

func failNow(t *testing.T, prop string, c Case, v *Violation) {
	p := saveFailure(prop, c, v)
	t.Fatalf("VIOLATION-CANDIDATE property=%s sig=%q case=%s\n%s\ncase: %s", prop, v.Sig, p, v.Error(), c.String())
}

// ---------------------------------------------------------------------------
// C16: whole-collection enumerations at every size

const c16Rule = "exhaustive sizes: every n in 0..130 and in the neighbourhoods of k*1024 for k = 1..10 and 12 (1020..1030, 2044..2052, 3068..3076, 4095..4100, 5119..5122, ..., 10239..10243, 12289..12290), memory-only, flushed+evicted, re-opened, and re-opened with the enumeration as the very first walk of the tree; additionally 21 sizes between 1 and 3073 as spine-shaped trees (priorities following or opposing the key order, depth = n); Len, VisitItemsAscendBlockEx (nil mangler, reverse, RandBm, seeded shuffle; with and without values) and VisitItemsRandom: no panic, Len == n, multiset of keys handed to the visitor == key set (each exactly once); for n == 0 the visitor is never called (nil-or-error not judged). Random part: rapid-generated key sets/priorities/comparators up to 300 items through the history interpreter. Non-trivial = n odd or n > 1024 with a partial last block; distinct by (n, cache state, API variant) resp. case hash."

// sizeCase encodes one exhaustive C16 case as a replayable Case.
func sizeCase(n int, mode int) Case {
	return Case{Cfg: Config{Profile: "C16-sizes", Extra: []int{n, mode}, RandSeed: int64(n)*7 + int64(mode) + 1}}
}

// RunSizeCase builds a collection of n items and runs every enumeration API.
func RunSizeCase(c Case) *Violation {
	n, mode := c.Cfg.Extra[0], c.Cfg.Extra[1]
	rand.Seed(c.Cfg.RandSeed)
	g.VerifResetFreeLists()
	fail := func(sig, f string, a ...interface{}) *Violation {
		return &Violation{Prop: "C16", Sig: sig, Msg: fmt.Sprintf("n=%d mode=%d: ", n, mode) + fmt.Sprintf(f, a...)}
	}
	var v *Violation
	func() {
		defer func() {
			if r := recover(); r != nil {
				v = fail("panic", "panic: %v", r)
			}
		}()
		var file *MemFile
		var st *g.Store
		var err error
		if mode == 0 {
			st, err = g.NewStore(nil)
		} else {
			file = NewMemFile("c16")
			file.KeepLog = false
			st, err = g.NewStore(file)
		}
		if err != nil {
			v = fail("open", "%v", err)
			return
		}
		col := st.SetCollection("x", nil)
		want := map[string]bool{}
		for i := 0; i < n; i++ {
			k := fmt.Sprintf("k%06d", (i*7919)%1000003)
			want[k] = true
			prio := rand.Int31()
			if len(c.Cfg.Extra) > 2 && c.Cfg.Extra[2] != 0 {
				// degenerate shapes: priorities follow (1) or oppose (2) the key order, so
				// the treap is one spine of depth n
				prio = int32((i*7919)%1000003) + 1
				if c.Cfg.Extra[2] == 2 {
					prio = 1000004 - prio
				}
			}
			if err := col.SetItem(&g.Item{Key: []byte(k), Val: []byte{byte(i)}, Priority: prio}); err != nil {
				v = fail("set", "%v", err)
				return
			}
		}
		if mode >= 1 {
			if err := st.Flush(); err != nil {
				v = fail("flush", "%v", err)
				return
			}
			for i := 0; i < 20; i++ {
				col.EvictSomeItems()
			}
			if mode >= 2 {
				st.Close()
				if st, err = g.NewStore(file); err != nil {
					v = fail("reopen", "%v", err)
					return
				}
				col = st.GetCollection("x")
			}
		}
		if mode != 3 {
			// (mode 3: the enumerations run before anything else walked the re-opened tree)
			l, err := col.Len()
			if err != nil || l != int64(n) {
				v = fail("len", "Len() = %d, %v; the collection has %d items", l, err, n)
				return
			}
		}
		run := func(name string, f func(vis g.ItemVisitorEx) error) {
			if v != nil {
				return
			}
			seen := map[string]int{}
			err := f(func(i *g.Item, d uint64) bool { seen[string(i.Key)]++; return true })
			if n == 0 {
				if len(seen) != 0 {
					v = fail("block-ghost", "%s called the visitor on an empty collection", name)
				}
				return
			}
			if err != nil {
				v = fail("block-error", "%s returned %v", name, err)
				return
			}
			for k := range want {
				if seen[k] != 1 {
					v = fail("block-coverage", "%s presented key %s %d times", name, k, seen[k])
					return
				}
			}
			if len(seen) != n {
				v = fail("block-coverage", "%s presented %d distinct keys, want %d", name, len(seen), n)
			}
		}
		for m := 0; m < 4; m++ {
			m := m
			for _, wv := range []bool{false, true} {
				wv := wv
				run(fmt.Sprintf("VisitItemsAscendBlockEx(mangler %d, withValue %v)", m, wv), func(vis g.ItemVisitorEx) error {
					return col.VisitItemsAscendBlockEx(wv, mangler(m, int64(n)), vis)
				})
			}
		}
		run("VisitItemsRandom", func(vis g.ItemVisitorEx) error { return col.VisitItemsRandom(vis) })
		st.Close()
	}()
	return v
}

func init() {
	replayers["C16"] = func(c Case) *Violation {
		if c.Cfg.Profile == "C16-sizes" {
			return RunSizeCase(c)
		}
		v, _ := Run(c, Specs["C16"].Opts)
		return v
	}
}

func c16Sizes() []int {
	var ns []int
	for n := 0; n <= 130; n++ {
		ns = append(ns, n)
	}
	for _, r := range [][2]int{{1020, 1030}, {2044, 2052}, {3068, 3076}, {4095, 4100}, {5119, 5122}, {6143, 6146}, {7167, 7171}, {8191, 8195}, {9215, 9219}, {10239, 10243}, {12289, 12290}} {
		for n := r[0]; n <= r[1]; n++ {
			ns = append(ns, n)
		}
	}
	return ns
}

// spine-shaped collections (depth = n) of these sizes are enumerated too
var c16SpineSizes = []int{1, 2, 3, 5, 31, 100, 127, 128, 129, 130, 255, 256, 257, 300, 513, 1023, 1024, 1025, 1100, 2049, 3073}

func TestC16Sizes(t *testing.T) {
	st := NewStats("C16", c16Rule, commonAssumptions)
	st.Exhaustive = true
	st.Extra["counts_units"] = "exhaustive phase: one evaluation per (n, cache state); each runs Len + 8 block-visit variants + VisitItemsRandom"
	defer func() {
		if p := outPath(); p != "" {
			st.Write(p)
		}
	}()
	sh, nsh := shardOf()
	idx := 0
	for _, n := range c16SpineSizes {
		for shape := 1; shape <= 2; shape++ {
			for _, mode := range []int{0, 2, 3} {
				idx++
				if idx%nsh != sh {
					continue
				}
				c := sizeCase(n, mode)
				c.Cfg.Extra = append(c.Cfg.Extra, shape)
				v, _ := guarded("C16", c, func() (*Violation, map[string]int) { return RunSizeCase(c), nil })
				if v != nil {
					failNow(t, "C16", c, v)
				}
				st.Note(c.Hash(), map[string]int{"size_case": 1, "size_spine": 1}, n > 1, func() string {
					return fmt.Sprintf("n=%d mode=%d spine-shaped (shape %d: priorities follow/oppose the key order)", n, mode, shape)
				})
			}
		}
	}
	for _, n := range c16Sizes() {
		for mode := 0; mode < 4; mode++ {
			if mode == 3 && n > 1100 && n%2 == 0 {
				continue // the fourth cache state for every small n and every second large one
			}
			idx++
			if idx%nsh != sh {
				continue
			}
			c := sizeCase(n, mode)
			v, _ := guarded("C16", c, func() (*Violation, map[string]int) { return RunSizeCase(c), nil })
			if v != nil {
				failNow(t, "C16", c, v)
			}
			bl := 2
			if n > 1024 {
				bl = (n+1023)/1024 + 1
			}
			nontrivial := n > 0 && n%bl != 0
			ev := map[string]int{"size_case": 1}
			if n == 0 {
				ev["size_empty"] = 1
			}
			if n > 1024 {
				ev["size_above_maxblocks"] = 1
			}
			st.Note(c.Hash(), ev, nontrivial, func() string { return fmt.Sprintf("n=%d mode=%d (0 mem, 1 flushed+evicted, 2 re-opened, 3 re-opened and enumerated before any other walk)", n, mode) })
		}
	}
}

var profEnum = &Profile{
	Name: "C16-enum", MinOps: 4, MaxOps: 120, NColls: 2, MemPct: 30, Cmps: true, EndOnly: 100, Nested: true,
	Kinds: []wk{{OpSet, 60}, {OpSetR, 6}, {OpDel, 8}, {OpFlush, 4}, {OpEvict, 4}, {OpReopen, 2}, {OpLen, 5}, {OpBlock, 8}, {OpRandom, 6}, {OpSet, 4}},
}

func init() {
	s := &Spec{Prop: "C16", Profile: profEnum,
		NonTrivial: func(c *Case, ev map[string]int) bool { return has(ev, "block_visit_partial") },
		Rule:       c16Rule}
	s.Opts.Prop = "C16"
	s.Assumptions = commonAssumptions
	Specs["C16"] = s
}

func TestC16(t *testing.T) { specTest(t, "C16") }

// ---------------------------------------------------------------------------
// C13: exhaustive small scope

const c13ExRule = "exhaustive small scope: for n <= 4 (quick) / n <= 5 (thorough) keys, every insertion order x every assignment of distinct priority ranks (n!*n! trees), memory-only and flush+evict+re-open; for n <= 3 (quick) / n <= 4 (thorough) additionally followed by every single delete and every single raising overwrite; after each: tree invariants (order, exact aggregates via hook walk and file bytes, heap order, canonical treap depth) through the same oracle as the random part. Non-trivial = n >= 3."

func permutations(n int) [][]int {
	var res [][]int
	var rec func(cur []int, used int)
	rec = func(cur []int, used int) {
		if len(cur) == n {
			res = append(res, append([]int{}, cur...))
			return
		}
		for i := 0; i < n; i++ {
			if used&(1<<i) == 0 {
				rec(append(cur, i), used|1<<i)
			}
		}
	}
	rec(nil, 0)
	return res
}

func TestC13Exhaustive(t *testing.T) {
	st := NewStats("C13", c13ExRule, commonAssumptions)
	st.Exhaustive = true
	defer func() {
		if p := outPath(); p != "" {
			st.Write(p)
		}
	}()
	maxN, maxMut := 4, 3
	if os.Getenv("VERIF_TIER") == "thorough" {
		maxN, maxMut = 5, 4
	}
	sh, nsh := shardOf()
	opts := Specs["C13"].Opts
	idx := 0
	keys := []string{"a", "b", "c", "d", "e"}
	for n := 1; n <= maxN; n++ {
		perms := permutations(n)
		for _, order := range perms {
			for _, ranks := range perms {
				for _, mem := range []bool{true, false} {
					idx++
					if idx%nsh != sh {
						continue
					}
					base := Case{Cfg: Config{Profile: "C13-tree", Mem: mem, RandSeed: 1, CheckEvery: 1, Monotone: true}}
					for _, ki := range order {
						base.Ops = append(base.Ops, Op{K: OpSet, Key: []byte(keys[ki]), Val: []byte{byte(ki)}, Prio: int32(10 * (ranks[ki] + 1))})
					}
					variants := []Case{base}
					if !mem {
						v2 := base
						v2.Ops = append(append([]Op{}, base.Ops...), Op{K: OpFlush}, Op{K: OpEvict, N: 3}, Op{K: OpReopen})
						variants = []Case{v2}
					}
					if n <= maxMut {
						for ki := 0; ki < n; ki++ {
							for _, b := range variants[:1] {
								d := b
								d.Ops = append(append([]Op{}, b.Ops...), Op{K: OpDel, Key: []byte(keys[ki])})
								variants = append(variants, d)
								for _, np := range []int32{int32(10*(ranks[ki]+1)) + 5, 1000} {
									o := b
									o.Ops = append(append([]Op{}, b.Ops...), Op{K: OpSet, Key: []byte(keys[ki]), Val: []byte("new"), Prio: np})
									variants = append(variants, o)
								}
							}
						}
					}
					for _, c := range variants {
						c := c
						v, ev := guarded("C13", c, func() (*Violation, map[string]int) { return Run(c, opts) })
						if v != nil {
							failNow(t, "C13", c, v)
						}
						st.Note(c.Hash(), ev, n >= 3, func() string { return c.String() })
					}
				}
			}
		}
	}
}

var _ = bytes.Equal
var _ = rapid.Check
var _ = sort.Strings
